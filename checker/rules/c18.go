package rules

import (
	"fmt"
	"go/constant"
	"go/token"
	"go/types"
	"sort"
	"strings"

	"golang.org/x/tools/go/ssa"

	"gzverify/px"
)

// C18 — authentication gates.
func init() { register("C18", "other", c18) }

func isServeHTTP(e *px.Event) bool {
	return e.Kind == px.EvCall && e.Call.Method != nil && e.Call.Method.Name() == "ServeHTTP"
}

func c18(c *Ctx) {
	c.R.RuleText = "gate dominance on all paths of the JWT and content-security middlewares, key-function discipline, forbidden-API references, signature-input coverage by value flow, cryption writer isolation"
	c.R.Explain = "Structural necessary conditions of C18: the protected handler runs only on paths where ParseToken returned no error; every other path writes 401 and does not call it; the JWT key function returns the configured secret bytes without looking at the token, the previous secret is tried only when it is non-empty, a token is returned only from a parse that reported no error, the parser is built without disabling validation (no none-alg, no unverified parse anywhere in the module); standard claims are filtered; behind strict content security the handler runs only after ParseContentSecurity succeeded and VerifySignature returned CodeSignaturePass; the HMAC input covers timestamp, method, path, query and a digest of the whole body, keyed by the decrypted secret, compared by equality after the tolerance test; encrypted bodies are decrypted before and responses encrypted after the handler. NOT decided: cryptographic strength, round trips."
	c.R.Assume = append(c.R.Assume, "golang-jwt/v4 reports every signature, algorithm and time-claim failure through the error of Parse and rejects a []byte key for non-HMAC algorithms", "panics are not modelled for these middlewares")
	c18jwt(c)
	c18key(c)
	c18cs(c)
	c18sig(c)
	c18cryption(c)
	c18keysPerGroup(c)
	c18padding(c)
	c18cipherInput(c)
	c18claims(c)
	c18bind(c)
	c18fullBody(c)
	// R11 (round 5): a route answers exactly the method it was registered (and signed) for — the router dispatches by the
	// request's own method only; a HEAD served from the GET route would run GET handlers behind a gate that never
	// verifies HEAD (seed r5-C18-2)
	c09dispatchAs(c, "C18.R11", "C18.R11")
}

func c18jwt(c *Ctx) {
	rule := "C18.R1"
	f := c.fn(rule, "rest/handler", "Authorize")
	if f == nil {
		return
	}
	cl := c.closure(rule, f, "serving closure", func(a *ssa.Function) bool {
		return callsInBody(a, func(cc *ssa.CallCommon) bool { return cc.IsInvoke() && cc.Method.Name() == "ServeHTTP" })
	})
	if cl == nil {
		return
	}
	ps := c.paths(rule, cl, px.Config{MaxVisits: 2, MaxPaths: 100000})
	parse := calleeIs("rest/token.(*TokenParser).ParseToken")
	unauth := calleeIs("rest/handler.unauthorized")
	rP := paramOfType(cl, "*net/http.Request")
	c.forall(rule, "rest/handler.Authorize$serve", "next.ServeHTTP runs (once) only on paths where ParseToken returned a nil error; every other completed path calls unauthorized and never next", cl, ps, func(p *px.Path) (bool, string) {
		if p.Exit == px.ExitCut {
			if p.Has(isServeHTTP) && !okParse(p, parse) {
				return false, "handler reached without a successful ParseToken"
			}
			return true, ""
		}
		pt := p.First(parse)
		if pt == nil || p.Count(parse) != 1 {
			return false, "ParseToken not consulted exactly once"
		}
		if !isParam(pt.Call.Args[1], rP) {
			return false, "ParseToken does not parse the incoming request"
		}
		n := p.Count(isServeHTTP)
		if okParse(p, parse) {
			if n > 1 {
				return false, "handler called more than once"
			}
			if n == 0 && p.Count(unauth) == 0 {
				return false, "request neither served nor refused"
			}
			if n == 1 && p.Count(unauth) != 0 {
				return false, "request both refused and served"
			}
			return true, ""
		}
		if n != 0 {
			return false, "handler reached although ParseToken did not succeed"
		}
		if p.Count(unauth) != 1 {
			return false, "failed authentication is not refused through unauthorized()"
		}
		return true, ""
	})
	// claims filter
	std := map[string]bool{}
	for _, n := range []string{"aud", "exp", "jti", "iat", "iss", "nbf", "sub"} {
		std[n] = true
	}
	c.forall("C18.R3", "rest/handler.Authorize$serve#claims", "only non-registered claims are put into the handler's context: each of aud, exp, jti, iat, iss, nbf, sub was compared and excluded before context.WithValue", cl, ps, func(p *px.Path) (bool, string) {
		for _, wv := range p.All(calleeIs("context.WithValue")) {
			k := wv.Call.Args[1].Strip(false)
			excluded := map[string]bool{}
			for _, e := range p.Events[:wv.Seq] {
				if e.Kind != px.EvBranch || e.Cond.Kind != px.KBinOp || e.Cond.Op != token.EQL || e.Taken {
					continue
				}
				x, y := e.Cond.X, e.Cond.Y
				if isConstSym(x) {
					x, y = y, x
				}
				if x.Strip(false) != k.Strip(false) && !sameMkIface(x, k) {
					continue
				}
				if a := p.Abs(y); a.K == px.ConstV && a.C.Kind() == constant.String {
					excluded[constant.StringVal(a.C)] = true
				}
			}
			for n := range std {
				if !excluded[n] {
					return false, "registered claim " + n + " is not excluded before WithValue"
				}
			}
		}
		return true, ""
	})
	// the request handed to next derives from r (WithContext) and ctx roots at r.Context()
	c.forall(rule, "rest/handler.Authorize$serve#request", "the handler receives the incoming request (with the claims context derived from r.Context())", cl, ps, func(p *px.Path) (bool, string) {
		for _, e := range p.All(isServeHTTP) {
			rq := e.Call.Args[1].Strip(false)
			if isParam(rq, rP) {
				continue
			}
			if !(isCallTo(rq, "net/http.(*Request).WithContext") && isParam(rq.Call.Args[0], rP)) {
				return false, "handler gets a different request: " + rq.Describe()
			}
		}
		return true, ""
	})
	if u := c.fn(rule, "rest/handler", "unauthorized"); u != nil {
		ups := c.paths(rule, u, px.Config{})
		c.forall(rule, "rest/handler.unauthorized", "every path ends by writing 401 (after the optional callback)", u, ups, func(p *px.Path) (bool, string) {
			wh := p.All(func(e *px.Event) bool {
				return e.Kind == px.EvCall && e.Call.Obj() != nil && e.Call.Obj().Name() == "WriteHeader"
			})
			if len(wh) != 1 {
				return false, fmt.Sprintf("WriteHeader ×%d", len(wh))
			}
			a := wh[0].Call.Args[len(wh[0].Call.Args)-1]
			if v := p.Abs(a); v.K != px.ConstV || !constant.Compare(v.C, token.EQL, constant.MakeInt64(401)) {
				return false, "status is not 401"
			}
			for _, e := range p.All(func(e *px.Event) bool { return e.Kind == px.EvCall && e.Call.IsDyn() }) {
				if e.Seq > wh[0].Seq {
					return false, "callback runs after the status was written"
				}
			}
			return true, ""
		})
	}
	c.R.Min(rule, 3, "Authorize closure, request, unauthorized")
}

func sameMkIface(a, b *px.Sym) bool {
	return a != nil && b != nil && a.Strip(false) == b.Strip(false)
}

func okParse(p *px.Path, parse px.Pred) bool {
	pt := p.First(parse)
	if pt == nil {
		return false
	}
	es := findExtract(p, pt.Res, 1)
	return es != nil && p.Abs(es).K == px.Nil
}

func c18key(c *Ctx) {
	rule := "C18.R2"
	f := c.fn(rule, "rest/token", "(*TokenParser).doParseToken")
	if f != nil {
		secP := paramOfType(f, "string")
		ps := c.paths(rule, f, px.Config{})
		var keyFn *ssa.Function
		c.forall(rule, "rest/token.(*TokenParser).doParseToken", "parses the incoming request with a key function and a parser from newParser(); returns the library's verdict unchanged", f, ps, func(p *px.Path) (bool, string) {
			es := p.All(calleeIs("github.com/golang-jwt/jwt/v4/request.ParseFromRequest"))
			if len(es) != 1 {
				return false, "ParseFromRequest not called exactly once"
			}
			a := es[0].Call.Args
			if !isParam(a[0], f.Params[1]) {
				return false, "not parsing the incoming request"
			}
			k := a[2].Strip(false)
			if k.Kind != px.KClosure {
				return false, "key function is not the local closure"
			}
			keyFn = k.Fn
			opts := p.SliceElems(a[3])
			if len(opts) != 1 || !isCallTo(opts[0], "github.com/golang-jwt/jwt/v4/request.WithParser") || !isCallTo(opts[0].Strip(false).Call.Args[0], "rest/token.newParser") {
				return false, "options are not exactly WithParser(newParser())"
			}
			for i, r := range p.Results {
				if r.Strip(false) != findExtract(p, es[0].Res, i) {
					return false, "library verdict not returned unchanged"
				}
			}
			return true, ""
		})
		if keyFn != nil {
			kps := c.paths(rule, keyFn, px.Config{})
			c.forall(rule, "rest/token.(*TokenParser).doParseToken$key", "the key function returns []byte(secret) for the configured secret and never looks at the token (so a none/asymmetric alg cannot choose its own key)", keyFn, kps, func(p *px.Path) (bool, string) {
				if len(p.Results) != 2 || !px.IsNilConst(p.Results[1]) {
					return false, "key function may fail / returns an error"
				}
				k := p.Results[0].Strip(false)
				if k.Kind != px.KConvert {
					return false, "key is not a []byte conversion: " + k.Describe()
				}
				if b, ok := k.Typ.Underlying().(*types.Slice); !ok || !types.Identical(b.Elem(), types.Typ[types.Byte]) {
					return false, "key is not []byte (a non-HMAC alg could accept it)"
				}
				src := k.X.Strip(false)
				if !(src.Kind == px.KFreeVar && src.V.Name() == secP.Name()) && !(src.Kind == px.KLoad && src.X != nil && src.X.Kind == px.KFreeVar && src.X.V.Name() == secP.Name()) {
					return false, "key does not come from the configured secret"
				}
				for _, e := range p.Events {
					for _, s := range []*px.Sym{e.Addr, e.Val, e.Cond} {
						if s != nil && dependsOn(p, s, symOfParam(p, keyFn.Params[0])) && keyFn.Params[0] != nil && symOfParam(p, keyFn.Params[0]) != nil {
							return false, "key function inspects the token"
						}
					}
				}
				return true, ""
			})
		}
	}
	if f := c.fn(rule, "rest/token", "newParser"); f != nil {
		ps := c.paths(rule, f, px.Config{})
		c.forall(rule, "rest/token.newParser", "the parser is built with WithJSONNumber only (claims validation and signature checks stay on)", f, ps, func(p *px.Path) (bool, string) {
			r := p.Results[0].Strip(false)
			if !isCallTo(r, "github.com/golang-jwt/jwt/v4.NewParser") {
				return false, "not jwt.NewParser(…)"
			}
			for _, o := range p.SliceElems(r.Call.Args[0]) {
				if !isCallTo(o, "github.com/golang-jwt/jwt/v4.WithJSONNumber") {
					return false, "parser option " + o.Describe()
				}
			}
			return true, ""
		})
	}
	if f := c.fn(rule, "rest/token", "(*TokenParser).ParseToken"); f != nil {
		ps := c.paths(rule, f, px.Config{})
		secP, prevP := f.Params[2], f.Params[3]
		dp := calleeIs("rest/token.(*TokenParser).doParseToken")
		c.forall(rule, "rest/token.(*TokenParser).ParseToken", "keys tried ⊆ {secret, prevSecret}, prevSecret only when it is non-empty; a token is returned only from a parse whose error was nil, otherwise (nil, that error)", f, ps, func(p *px.Path) (bool, string) {
			nonEmptyPrev := false
			for _, e := range p.All(px.KindIs(px.EvBranch)) {
				cnd := e.Cond
				if cnd.Kind != px.KBinOp {
					continue
				}
				x := cnd.X.Strip(false)
				if x.Kind == px.KCall && x.Call != nil && x.Call.Builtin == "len" && isParam(x.Call.Args[0], prevP) {
					if a := p.Abs(cnd.Y); a.K == px.ConstV && constant.Sign(a.C) == 0 && ((cnd.Op == token.GTR && e.Taken) || (cnd.Op == token.NEQ && e.Taken) || (cnd.Op == token.EQL && !e.Taken) || (cnd.Op == token.LEQ && !e.Taken)) {
						nonEmptyPrev = true
					}
				}
				if isParam(x, prevP) && isConstSym(cnd.Y) && p.Abs(cnd.Y).K == px.ConstV && p.Abs(cnd.Y).C.Kind() == constant.String && constant.StringVal(p.Abs(cnd.Y).C) == "" {
					if (cnd.Op == token.NEQ && e.Taken) || (cnd.Op == token.EQL && !e.Taken) {
						nonEmptyPrev = true
					}
				}
			}
			calls := p.All(dp)
			if len(calls) == 0 {
				return false, "no parse attempt"
			}
			var lastOK *px.Event
			for _, e := range calls {
				k := e.Call.Args[2].Strip(false)
				switch {
				case isParam(k, secP):
				case isParam(k, prevP):
					if !nonEmptyPrev {
						return false, "the previous secret is tried although it was not established non-empty (an empty HMAC key would verify forged tokens)"
					}
				default:
					return false, "a key other than the configured secrets is tried: " + k.Describe()
				}
				if !isParam(e.Call.Args[1], f.Params[1]) {
					return false, "another request is parsed"
				}
				if es := findExtract(p, e.Res, 1); es != nil && p.Abs(es).K == px.Nil {
					lastOK = e
				}
			}
			tok := p.Results[0].Strip(false)
			if px.IsNilConst(tok) {
				if px.IsNilConst(p.Results[1]) {
					return false, "returns (nil, nil)"
				}
				return true, ""
			}
			if lastOK == nil || tok != findExtract(p, lastOK.Res, 0) {
				return false, "a token is returned that does not come from a parse with nil error"
			}
			if !px.IsNilConst(p.Results[1]) && p.Abs(p.Results[1]).K != px.Nil {
				return false, "token returned together with an error"
			}
			return true, ""
		})
	}
	// forbidden API references anywhere in the module
	forbidden := map[string]bool{"UnsafeAllowNoneSignatureType": true, "WithoutClaimsValidation": true, "ParseUnverified": true}
	var hits []string
	nref := 0
	for _, pk := range c.P.Pkgs {
		if pk.TypesInfo == nil {
			continue
		}
		for id, obj := range pk.TypesInfo.Uses {
			if obj.Pkg() == nil || !strings.HasPrefix(obj.Pkg().Path(), "github.com/golang-jwt/jwt") {
				continue
			}
			nref++
			if forbidden[obj.Name()] {
				hits = append(hits, c.P.Pos(id.Pos())+" "+obj.Name())
			}
		}
	}
	sort.Strings(hits)
	o := c.R.Check(len(hits) == 0 && nref > 0, rule, "module#jwt-forbidden-apis", "no reference to jwt.UnsafeAllowNoneSignatureType, WithoutClaimsValidation or ParseUnverified anywhere in the module", "-", strings.Join(hits, "; "), nil, 0)
	o.Sites = nref
	c.R.Min(rule, 5, "doParseToken(+key), newParser, ParseToken, forbidden APIs")
}

func symOfParam(p *px.Path, prm *ssa.Parameter) *px.Sym { return p.ParamSym(prm) }

func c18cs(c *Ctx) {
	rule := "C18.R4"
	f := c.fn(rule, "rest/handler", "LimitContentSecurityHandler")
	if f == nil {
		return
	}
	cl := c.closure(rule, f, "serving closure", func(a *ssa.Function) bool {
		return len(a.Params) == 2 && typeString(a.Params[1].Type()) == "*net/http.Request"
	})
	if cl == nil {
		return
	}
	pass := constVal(c, "rest/httpx", "CodeSignaturePass")
	ps := c.paths(rule, cl, px.Config{})
	parse := calleeIs("rest/internal/security.ParseContentSecurity")
	verify := calleeIs("rest/internal/security.VerifySignature")
	cryp := calleeIs("rest/handler.LimitCryptionHandler")
	reach := func(p *px.Path) bool { return p.Has(isServeHTTP) }
	passed := func(p *px.Path) bool {
		pe := p.First(parse)
		if pe == nil {
			return false
		}
		es := findExtract(p, pe.Res, 1)
		if es == nil || p.Abs(es).K != px.Nil {
			return false
		}
		v := p.First(verify)
		if v == nil {
			return false
		}
		if v.Call.Args[1].Strip(false) != findExtract(p, pe.Res, 0) {
			return false
		}
		// the verdict compared with CodeSignaturePass
		for _, e := range p.All(px.KindIs(px.EvBranch)) {
			cnd := e.Cond
			if cnd.Kind != px.KBinOp || cnd.X.Strip(false) != v.Res.Strip(false) || pass == nil {
				continue
			}
			if a := p.Abs(cnd.Y); a.K == px.ConstV && isConstSym(cnd.Y) && numEq(a.C, pass) {
				if (cnd.Op == token.NEQ && !e.Taken) || (cnd.Op == token.EQL && e.Taken) {
					return true
				}
			}
		}
		return false
	}
	c.forall(rule, "rest/handler.LimitContentSecurityHandler$serve#gate", "once the signature is examined, the handler is reached only after ParseContentSecurity succeeded and VerifySignature returned CodeSignaturePass; failures go to the callbacks only", cl, ps, func(p *px.Path) (bool, string) {
		if !p.Has(parse) {
			return true, ""
		}
		if reach(p) && !passed(p) {
			return false, "handler reached although the signature was not verified"
		}
		if !passed(p) && p.Count(calleeIs("rest/handler.executeCallbacks")) != 1 {
			return false, "verification failure is not handed to the callbacks"
		}
		if passed(p) && !reach(p) {
			return false, "verified request is not served"
		}
		for _, e := range p.All(cryp) {
			_ = e
		}
		return true, ""
	})
	unsigned := 0
	for _, p := range ps {
		if !p.Has(parse) && reach(p) {
			unsigned++
		}
	}
	if unsigned > 0 {
		c.R.Fail(rule, "rest/handler.LimitContentSecurityHandler$serve#unsigned-methods", "every request behind content security has its signature examined before the handler runs", posOf(c, cl),
			fmt.Sprintf("%d path(s) reach the handler without examining any signature: requests whose method is not DELETE/GET/POST/PUT (PATCH, HEAD, OPTIONS, …) bypass strict content security", unsigned), nil)
	} else {
		c.R.Hold(rule, "rest/handler.LimitContentSecurityHandler$serve#unsigned-methods", "every request behind content security has its signature examined before the handler runs", len(ps))
	}
	if h := c.fn(rule, "rest/handler", "handleVerificationFailure"); h != nil {
		hps := c.paths(rule, h, px.Config{})
		c.forall(rule, "rest/handler.handleVerificationFailure", "the default failure callback serves the request only when not strict; strict ⇒ 403 and the handler is not called", h, hps, func(p *px.Path) (bool, string) {
			strictP := paramOfType(h, "bool")
			var st px.AbsK
			for _, e := range p.All(px.KindIs(px.EvBranch)) {
				if isParam(e.Cond, strictP) {
					st = px.False
					if e.Taken {
						st = px.True
					}
				}
			}
			n := p.Count(isServeHTTP)
			if st != px.False && n != 0 {
				return false, "strict mode still serves an unverified request"
			}
			if st == px.True {
				wh := p.All(func(e *px.Event) bool {
					return e.Kind == px.EvCall && e.Call.Method != nil && e.Call.Method.Name() == "WriteHeader"
				})
				if len(wh) != 1 || !numEq(p.Abs(wh[0].Call.Args[0]).C, constant.MakeInt64(403)) {
					return false, "strict refusal is not 403"
				}
			}
			return true, ""
		})
	}
	if h := c.fn(rule, "rest/handler", "executeCallbacks"); h != nil {
		hps := c.paths(rule, h, px.Config{MaxVisits: 2})
		c.forall(rule, "rest/handler.executeCallbacks", "callbacks get the caller's strict flag unchanged; the handler itself is never called here", h, hps, func(p *px.Path) (bool, string) {
			if p.Has(isServeHTTP) {
				return false, "calls the handler directly"
			}
			strictP := paramOfType(h, "bool")
			for _, e := range p.All(func(e *px.Event) bool { return e.Kind == px.EvCall && e.Call.IsDyn() }) {
				ok := false
				for _, a := range e.Call.Args {
					if isParam(a, strictP) {
						ok = true
					}
				}
				if !ok {
					return false, "strict flag not forwarded"
				}
			}
			return true, ""
		})
	}
	// default callback installed when none given
	outer := c.paths(rule, f, px.Config{})
	c.forall(rule, "rest/handler.LimitContentSecurityHandler#default-callback", "without user callbacks the default failure callback (handleVerificationFailure) is installed", f, outer, func(p *px.Path) (bool, string) {
		for _, e := range p.All(px.KindIs(px.EvBranch)) {
			cnd := e.Cond
			if cnd.Kind == px.KBinOp && cnd.Op == token.EQL && e.Taken {
				if x := cnd.X.Strip(false); x.Kind == px.KCall && x.Call != nil && x.Call.Builtin == "len" {
					ok := false
					for _, ap := range p.All(func(e *px.Event) bool { return e.Kind == px.EvCall && e.Call.Builtin == "append" }) {
						for _, el := range p.SliceElems(ap.Call.Args[1]) {
							if s := el.Strip(false); s.Kind == px.KFunc && s.Fn.Name() == "handleVerificationFailure" {
								ok = true
							}
						}
					}
					if !ok {
						return false, "no default callback"
					}
				}
			}
		}
		return true, ""
	})
	c.R.Min(rule, 5, "gate, unsigned-methods, handleVerificationFailure, executeCallbacks, default callback")
}

func c18sig(c *Ctx) {
	rule := "C18.R5"
	f := c.fn(rule, "rest/internal/security", "VerifySignature")
	if f == nil {
		return
	}
	pass := constVal(c, "rest/httpx", "CodeSignaturePass")
	wrongTime := constVal(c, "rest/httpx", "CodeSignatureWrongTime")
	rP, hP, tolP := f.Params[0], f.Params[1], f.Params[2]
	inl := func(ci *px.CallInfo, d int) bool { return ci.Static != nil && ci.Static.Name() == "getPathQuery" }
	ps := c.paths(rule, f, px.Config{Inline: inl})
	hmac := calleeIs("core/codec.HmacBase64")
	pathFromURL := true
	c.forall(rule, "rest/internal/security.VerifySignature", "CodeSignaturePass only when header.Signature == HmacBase64(header.Key, join(timestamp, method, path, query, body digest)) and after the timestamp passed the tolerance window", f, ps, func(p *px.Path) (bool, string) {
		r := p.Abs(p.Results[0])
		if r.K != px.ConstV || pass == nil {
			return false, "result is not a constant code"
		}
		if !numEq(r.C, pass) {
			return true, ""
		}
		hs := p.All(hmac)
		if len(hs) != 1 {
			return false, "HMAC not computed exactly once"
		}
		if !px.IsFieldLoad(hs[0].Call.Args[0], "Key", func(b *px.Sym) bool { return isParam(b, hP) }) {
			return false, "HMAC key is not the header's decrypted key"
		}
		data := hs[0].Call.Args[1].Strip(false)
		if !isCallTo(data, "strings.Join") {
			return false, "signed content is not a strings.Join"
		}
		elems := p.SliceElems(data.Call.Args[0])
		have := map[string]bool{}
		for _, el := range elems {
			el = el.Strip(false)
			switch {
			case px.IsFieldLoad(el, "Timestamp", func(b *px.Sym) bool { return isParam(b, hP) }):
				have["timestamp"] = true
			case px.IsFieldLoad(el, "Method", func(b *px.Sym) bool { return isParam(b, rP) }):
				have["method"] = true
			case isCallTo(el, "rest/internal/security.computeBodySignature") && isParam(el.Call.Args[0], rP):
				have["body"] = true
			case px.IsFieldLoad(el, "Path", nil):
				have["path"] = true
				if !urlOfRequest(el, rP) {
					pathFromURL = false
				}
			case px.IsFieldLoad(el, "RawQuery", nil):
				have["query"] = true
				if !urlOfRequest(el, rP) {
					pathFromURL = false
				}
			}
		}
		for _, w := range []string{"timestamp", "method", "path", "query", "body"} {
			if !have[w] {
				return false, "the signed content does not cover the request's " + w
			}
		}
		// equality with the header's signature
		eq := false
		for _, e := range p.All(px.KindIs(px.EvBranch)) {
			cnd := e.Cond
			if cnd.Kind != px.KBinOp {
				continue
			}
			x, y := cnd.X.Strip(false), cnd.Y.Strip(false)
			isSig := func(s *px.Sym) bool {
				return px.IsFieldLoad(s, "Signature", func(b *px.Sym) bool { return isParam(b, hP) })
			}
			if (isSig(x) && y == hs[0].Res) || (isSig(y) && x == hs[0].Res) {
				if (cnd.Op == token.EQL && e.Taken) || (cnd.Op == token.NEQ && !e.Taken) {
					eq = true
				}
			}
		}
		if !eq {
			return false, "pass without header.Signature == computed signature"
		}
		// tolerance window evaluated (both comparisons false) before
		win := 0
		for _, e := range p.All(px.KindIs(px.EvBranch)) {
			if e.Seq > hs[0].Seq || e.Cond.Kind != px.KBinOp {
				continue
			}
			// canonical form "small <= big held on this path", whichever way the test is spelled
			// (!(a < b), a >= b, b <= a, !(b > a)); inside the window the larger side is the one
			// the tolerance was added to: now <= seconds+tol and seconds <= now+tol
			var small, big *px.Sym
			switch {
			case (e.Cond.Op == token.LSS && !e.Taken) || (e.Cond.Op == token.GEQ && e.Taken):
				small, big = e.Cond.Y, e.Cond.X
			case (e.Cond.Op == token.GTR && !e.Taken) || (e.Cond.Op == token.LEQ && e.Taken):
				small, big = e.Cond.X, e.Cond.Y
			default:
				continue
			}
			if b := big.Strip(true); b != nil && b.Kind == px.KBinOp && b.Op == token.ADD && dependsOn(p, big, symOfParam(p, tolP)) && !dependsOn(p, small, symOfParam(p, tolP)) {
				win++
			}
		}
		if win < 2 {
			return false, "pass without both sides of the tolerance window having been checked"
		}
		return true, ""
	})
	// wrong time code exists
	c.R.Check(wrongTime != nil, rule, "rest/httpx.CodeSignatureWrongTime", "a distinct wrong-time verdict exists", "-", "", nil, 1)
	if !pathFromURL {
		c.R.Fail(rule, "rest/internal/security.getPathQuery", "the signed path and query are the request's own (r.URL.Path, r.URL.RawQuery)", posOf(c, c.P.Func("rest/internal/security", "getPathQuery")),
			"on some path the signed path/query come from the client-supplied X-Request-Uri header instead of r.URL: the signature then does not cover the path the router dispatched", nil)
	} else {
		c.R.Hold(rule, "rest/internal/security.getPathQuery", "the signed path and query are the request's own (r.URL.Path, r.URL.RawQuery)", len(ps))
	}
	if f := c.fn(rule, "rest/internal/security", "computeBodySignature"); f != nil {
		ps := c.paths(rule, f, px.Config{})
		c.forall(rule, "rest/internal/security.computeBodySignature", "the digest is SHA-256 over the whole body, unconditionally (a body sent without Content-Length is still covered), and the body is restored for the handler", f, ps, func(p *px.Path) (bool, string) {
			cp := p.All(calleeIs("io.Copy"))
			if len(cp) != 1 {
				return false, fmt.Sprintf("body hashed ×%d on some path (must be unconditional)", len(cp))
			}
			if !px.ResultOf(cp[0].Call.Args[0], 0, func(ci *px.CallInfo) bool { return ci.Obj() != nil && ci.Obj().FullName() == "crypto/sha256.New" }) {
				return false, "digest is not SHA-256"
			}
			src := cp[0].Call.Args[1].Strip(false)
			dup := p.First(calleeIs("core/iox.DupReadCloser"))
			if dup == nil || src != findExtract(p, dup.Res, 0) {
				return false, "the hashed reader is not the request body (duplicated)"
			}
			if !px.IsFieldLoad(dup.Call.Args[0], "Body", func(b *px.Sym) bool { return isParam(b, f.Params[0]) }) {
				return false, "not reading r.Body"
			}
			restored := false
			for _, e := range p.All(px.KindIs(px.EvStore)) {
				if px.FieldAddrIs(e.Addr, "Body", nil) && e.Val.Strip(false) == findExtract(p, dup.Res, 1) && e.Seq > cp[0].Seq {
					restored = true
				}
			}
			if !restored {
				return false, "body not restored after hashing"
			}
			return true, ""
		})
	}
	c.R.Min(rule, 4, "VerifySignature, wrong-time, getPathQuery, computeBodySignature")
}

func urlOfRequest(el *px.Sym, rP *ssa.Parameter) bool {
	el = el.Strip(false)
	if el.Kind != px.KLoad || el.X == nil || el.X.Kind != px.KFieldAddr {
		return false
	}
	u := el.X.X // *url.URL value
	return px.IsFieldLoad(u, "URL", func(b *px.Sym) bool { return isParam(b, rP) })
}

func c18cryption(c *Ctx) {
	rule := "C18.R6"
	f := c.fn(rule, "rest/handler", "LimitCryptionHandler")
	if f == nil {
		return
	}
	cl := c.closure(rule, f, "serving closure", func(a *ssa.Function) bool {
		return len(a.Params) == 2 && typeString(a.Params[1].Type()) == "*net/http.Request"
	})
	if cl == nil {
		return
	}
	ps := c.paths(rule, cl, px.Config{MayPanic: func(ci *px.CallInfo) bool { return ci.Method != nil && ci.Method.Name() == "ServeHTTP" }})
	dec := calleeIs("rest/handler.decryptBody")
	c.forall(rule, "rest/handler.LimitCryptionHandler$serve", "the handler gets the buffering (encrypting) writer, never the raw one; a body that cannot be decrypted ⇒ 400 and the handler is not called; the encrypted flush is deferred", cl, ps, func(p *px.Path) (bool, string) {
		for _, e := range p.All(isServeHTTP) {
			if t := typeString(e.Call.Args[0].Strip(false).Typ); t != "*rest/handler.cryptionResponseWriter" {
				return false, "handler gets " + t
			}
		}
		if !p.Has(func(e *px.Event) bool {
			return e.Kind == px.EvDefer && e.Call.Static != nil && e.Call.Static.Name() == "flush"
		}) {
			return false, "encrypting flush is not deferred"
		}
		for _, d := range p.All(dec) {
			switch p.Abs(d.Res).K {
			case px.NonNil:
				if p.Has(isServeHTTP) {
					return false, "handler runs although the body could not be decrypted"
				}
				wh := p.All(func(e *px.Event) bool {
					return e.Kind == px.EvCall && e.Call.Method != nil && e.Call.Method.Name() == "WriteHeader"
				})
				if len(wh) != 1 || !numEq(p.Abs(wh[0].Call.Args[0]).C, constant.MakeInt64(400)) {
					return false, "undecryptable body is not answered with 400"
				}
			case px.Nil:
				if p.Count(isServeHTTP) != 1 {
					return false, "decrypted request not served exactly once"
				}
			default:
				return false, "decryption error not tested"
			}
		}
		return true, ""
	})
	if w := c.fn(rule, "rest/handler", "(*cryptionResponseWriter).Write"); w != nil {
		wps := c.paths(rule, w, px.Config{})
		c.forall(rule, "rest/handler.(*cryptionResponseWriter).Write", "handler output goes to the private buffer only (nothing reaches the client in clear)", w, wps, func(p *px.Path) (bool, string) {
			for _, e := range p.All(px.KindIs(px.EvCall)) {
				if e.Call.Method != nil {
					return false, "calls the underlying writer"
				}
				if e.Call.Recv != nil && !px.IsFieldLoad(e.Call.Recv, "buf", nil) {
					return false, "writes to something other than the buffer"
				}
			}
			return true, ""
		})
	}
	if fl := c.fn(rule, "rest/handler", "(*cryptionResponseWriter).flush"); fl != nil {
		fps := c.paths(rule, fl, px.Config{})
		c.forall(rule, "rest/handler.(*cryptionResponseWriter).flush", "what is written to the client is base64(EcbEncrypt(key, whole buffer))", fl, fps, func(p *px.Path) (bool, string) {
			ws := p.All(calleeIs("io.WriteString"))
			if len(ws) == 0 {
				return true, ""
			}
			body := ws[0].Call.Args[1].Strip(false)
			if !isCallTo(body, "encoding/base64.(*Encoding).EncodeToString") {
				return false, "client gets something other than the base64 of the ciphertext"
			}
			ct := body.Call.Args[1].Strip(false)
			enc := p.First(calleeIs("core/codec.EcbEncrypt"))
			if enc == nil || ct != findExtract(p, enc.Res, 0) {
				return false, "client gets something other than the ciphertext"
			}
			if !isParam(enc.Call.Args[0], fl.Params[2]) {
				return false, "encrypted with another key"
			}
			if es := findExtract(p, enc.Res, 1); es == nil || p.Abs(es).K != px.Nil {
				return false, "ciphertext used although encryption failed"
			}
			return true, ""
		})
	}
	// io.Writer contract: the buffering writer copies what the handler writes (handlers reuse their buffers)
	if w := c.P.Func("rest/handler", "(*cryptionResponseWriter).Write"); w != nil {
		bad := writeRetainsArg(c, w)
		c.R.Check(len(bad) == 0, rule, "rest/handler.(*cryptionResponseWriter).Write#copy", "Write copies p into the private buffer and does not keep p itself (io.Writer: \"Write must not retain p\"): a handler that streams from a reused buffer would otherwise overwrite what was collected before it is encrypted", posOf(c, w), fmt.Sprint(bad), nil, 1)
	}
	// one ciphertext per response: body bytes reach the client only from flush (the deferred finisher). base64 over ECB
	// is decoded as one unit; pieces pushed out earlier (an encrypting Flush) end in padding characters of their own and
	// the concatenation no longer decodes (seed r5-C18-3)
	{
		var bad []string
		n := 0
		for _, g := range c.P.AllFuncs("rest/handler") {
			root := g
			for root.Parent() != nil {
				root = root.Parent()
			}
			if root.Signature.Recv() == nil || !strings.HasSuffix(typeString(root.Signature.Recv().Type()), "rest/handler.cryptionResponseWriter") {
				continue
			}
			n++
			for _, b := range g.Blocks {
				for _, ins := range b.Instrs {
					call, ok := ins.(ssa.CallInstruction)
					if !ok {
						continue
					}
					cc := call.Common()
					writes := false
					isUnder := func(v ssa.Value) bool {
						for _, d := range reachingDefs(v, g, 0) {
							if u, ok := d.(*ssa.UnOp); ok {
								if fa, ok := u.X.(*ssa.FieldAddr); ok && fieldNameOf(fa) == "ResponseWriter" {
									return true
								}
							}
						}
						return false
					}
					if cc.IsInvoke() && (cc.Method.Name() == "Write" || cc.Method.Name() == "WriteString") && isUnder(cc.Value) {
						writes = true
					}
					if nm := calleeName(cc); (nm == "io.WriteString" || nm == "io.Copy" || nm == "fmt.Fprint" || nm == "fmt.Fprintf") && len(cc.Args) > 0 && isUnder(cc.Args[0]) {
						writes = true
					}
					if writes && root.Name() != "flush" {
						bad = append(bad, fmt.Sprintf("%s: %s writes body bytes to the client", c.P.Pos(ins.Pos()), funcDisplay(g)))
					}
				}
			}
		}
		// … and no body-writing capability is inherited around the buffer: Write, ReadFrom (what io.Copy and
		// http.ServeContent use when the writer offers it) and WriteString, if present in the method set, are the type's own
		if pk := c.P.Pkg("rest/handler"); pk != nil {
			if tn, ok := pk.Types.Scope().Lookup("cryptionResponseWriter").(*types.TypeName); ok {
				ms := types.NewMethodSet(types.NewPointer(tn.Type()))
				for _, name := range []string{"Write", "ReadFrom", "WriteString"} {
					sel := ms.Lookup(pk.Types, name)
					if sel == nil {
						continue
					}
					if len(sel.Index()) > 1 {
						bad = append(bad, fmt.Sprintf("%s is promoted from an embedded writer: payloads written through it (io.Copy, http.ServeContent use ReadFrom) go to the client in clear, past the encrypting buffer", name))
					}
				}
			}
		}
		sort.Strings(bad)
		c.R.Check(len(bad) == 0 && n >= 3, rule, "rest/handler.cryptionResponseWriter#one-ciphertext", "body bytes reach the client only from the deferred flush, as one base64(ECB) unit (no method streams encrypted pieces earlier)", "-", fmt.Sprintf("%d methods; %v", n, bad), bad, n)
	}
	c.R.Min(rule, 5, "LimitCryptionHandler closure, Write (2), flush, one-ciphertext")
}

// c18keysPerGroup (R8): the decrypters a route group verifies against are exactly that group's configured keys: the
// map handed to the content-security middleware is built per signatureVerifier call from signature.PrivateKeys
// (seed r3-C18-3: an engine-wide cache made a key configured for one group valid for all of them).
func c18keysPerGroup(c *Ctx) {
	rule := "C18.R8"
	f := c.fn(rule, "rest", "(*engine).signatureVerifier")
	if f == nil {
		return
	}
	sites := 0
	var bad []string
	walkWithClosures(f, func(g *ssa.Function) {
		for _, b := range g.Blocks {
			for _, ins := range b.Instrs {
				call, ok := ins.(ssa.CallInstruction)
				if !ok {
					continue
				}
				sc := call.Common().StaticCallee()
				if sc == nil || sc.Name() != "LimitContentSecurityHandler" || len(call.Common().Args) < 2 {
					continue
				}
				sites++
				for _, d := range reachingDefs(call.Common().Args[1], g, 0) {
					mm, ok := d.(*ssa.MakeMap)
					if !ok || mm.Parent() != f {
						bad = append(bad, c.P.Pos(call.Pos())+": decrypters come from "+describeDef(c, d)+", not from a map built by this call")
					}
				}
			}
		}
	})
	if sites == 0 {
		c.R.Undecided(rule, "rest.(*engine).signatureVerifier", "the middleware construction is recognised", "no call of LimitContentSecurityHandler")
		return
	}
	c.R.Check(len(bad) == 0, rule, "rest.(*engine).signatureVerifier#decrypters", "the key set given to the content-security middleware of a route group is a map made by this call (filled from this group's PrivateKeys), not state shared between groups", posOf(c, f), fmt.Sprint(bad), nil, sites)
}

// c18padding: the block padding written by the encryptor is accepted by the decryptor (writer/reader agreement).
func c18padding(c *Ctx) {
	rule := "C18.R7"
	pkg := "core/codec"
	if f := c.fn(rule, pkg, "pkcs5Padding"); f != nil {
		ps := c.paths(rule, f, px.Config{})
		c.forall(rule, pkg+".pkcs5Padding", "padding length = blockSize − len(data) % blockSize, i.e. between 1 and blockSize inclusive (a whole block when the data is block-aligned), each padding byte holding that length", f, ps, func(p *px.Path) (bool, string) {
			rp := p.First(calleeIs("bytes.Repeat"))
			if rp == nil {
				return false, "padding bytes are not built with bytes.Repeat"
			}
			got := anf(p, rp.Call.Args[1], func(s *px.Sym) string {
				if isParam(s, f.Params[1]) {
					return "blockSize"
				}
				if isLenOf(s, func(x *px.Sym) bool { return isParam(x, f.Params[0]) }) {
					return "len"
				}
				return ""
			}).String()
			if got != "-1·(1·len)%(1·blockSize) + 1·blockSize" {
				return false, "padding length is " + got
			}
			return true, ""
		})
	}
	if f := c.fn(rule, pkg, "pkcs5Unpadding"); f != nil {
		ps := c.paths(rule, f, px.Config{})
		bsP := f.Params[1]
		isU := func(s *px.Sym) bool {
			s = s.Strip(true)
			return s.Kind == px.KLoad && s.X != nil && s.X.Kind == px.KIndexAddr
		}
		isLen := func(s *px.Sym) bool { return isLenOf(s, func(x *px.Sym) bool { return isParam(x, f.Params[0]) }) }
		var rows []tableRow
		for ub := -1; ub <= 1; ub++ {
			for ul := -1; ul <= 1; ul++ {
				ub, ul := ub, ul
				exp := "error"
				if ub <= 0 && ul < 0 {
					exp = "ok"
				}
				rows = append(rows, tableRow{name: fmt.Sprintf("pad%sblockSize pad%slen", map[int]string{-1: "<", 0: "=", 1: ">"}[ub], map[int]string{-1: "<", 0: "=", 1: ">"}[ul]), expect: exp,
					atom: ordAtom(func(x, y *px.Sym) (int, bool) {
						if isU(x) && isParam(y, bsP) {
							return ub, true
						}
						if isU(x) && isLen(y) {
							return ul, true
						}
						// an emptiness guard: when the padding byte is smaller than the length, the length is at least 1
						if isLen(x) && y != nil && y.Kind == px.KConst && ul < 0 {
							if cv, ok := y.V.(*ssa.Const); ok && cv.Value != nil && cv.Int64() == 0 {
								return 1, true
							}
						}
						return 0, false
					}, nil)})
			}
		}
		c.checkTable(rule, pkg+".pkcs5Unpadding", "a padding length up to and including blockSize (and shorter than the data) is accepted — the encryptor writes a full block of padding for block-aligned plaintext — and anything larger is rejected", posOf(c, f), ps, rows, func(p *px.Path, atom atomFn) string {
			if p.Exit != px.ExitReturn || len(p.Results) != 2 {
				return "exit"
			}
			if px.IsNilConst(p.Results[1]) {
				return "ok"
			}
			return "error"
		})
	}
	c.R.Min(rule, 2, "pkcs5Padding, pkcs5Unpadding")
}

// c18claims: every non-standard claim is accumulated on the request context handed to the handler.
func c18claims(c *Ctx) {
	rule := "C18.R3"
	f := c.fn(rule, "rest/handler", "Authorize")
	if f == nil {
		return
	}
	var serve *ssa.Function
	var walk func(g *ssa.Function)
	walk = func(g *ssa.Function) {
		for _, a := range g.AnonFuncs {
			if callsInBody(a, func(cc *ssa.CallCommon) bool { return calleeName(cc) == "context.WithValue" }) {
				serve = a
			}
			walk(a)
		}
	}
	walk(f)
	if serve == nil {
		c.R.Undecided(rule, "rest/handler.Authorize$claims", "anchor resolves", "closure calling context.WithValue not found")
		return
	}
	ps := c.paths(rule, serve, px.Config{MaxVisits: 2, MaxPaths: 100000})
	two := 0
	held := c.forall(rule, "rest/handler.Authorize$claims", "claims are accumulated: each context.WithValue extends the context built so far (starting from the request's), and the handler receives the request with the final context — so every non-standard claim is visible, not just the last one", serve, ps, func(p *px.Path) (bool, string) {
		wvs := p.All(calleeIs("context.WithValue"))
		for i, w := range wvs {
			parent := w.Call.Args[0].Strip(false)
			if i == 0 {
				if parent.Kind != px.KCall || parent.Call.Obj() == nil || parent.Call.Obj().Name() != "Context" {
					return false, "the first claim is not attached to the request's context"
				}
				continue
			}
			two++
			if parent != wvs[i-1].Res {
				return false, "a claim is attached to the original request context instead of the context carrying the previous claims: only the last claim reaches the handler"
			}
		}
		if p.Exit == px.ExitReturn && len(wvs) > 0 {
			for _, e := range p.All(isServeHTTP) {
				wc := e.Call.Args[1].Strip(false)
				if wc.Kind != px.KCall || wc.Call.Obj() == nil || wc.Call.Obj().Name() != "WithContext" || wc.Call.Args[1].Strip(false) != wvs[len(wvs)-1].Res {
					return false, "the handler does not receive the request with the accumulated claims context"
				}
			}
		}
		return true, ""
	})
	if held && two == 0 {
		c.R.Undecided(rule, "rest/handler.Authorize$claims#reach", "a path with two claims is analysed", "no path with two WithValue calls")
	}
}
