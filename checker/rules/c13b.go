package rules

import (
	"fmt"
	"go/constant"
	"go/token"
	"go/types"
	"sort"
	"strings"

	"golang.org/x/tools/go/ssa"

	"gzverify/px"
)

// c13attach (R9, round 4): subscribe before snapshot. A listener that joins a watch is registered with the
// watcher *before* the current values are read for it. The watch goroutine takes its copy of the listener list
// when an event arrives; an event that lands between the snapshot and a later registration is in neither —
// the joining subscriber never hears of it, and a reload diffs against watcher.values, so it is never repaired
// (seed r4-C13-3: "hand over the current values first, attach afterwards"). Delivering an event twice is
// harmless (listeners are idempotent per key), missing one is not.
func c13attach(c *Ctx) {
	rule := "C13.R9"
	// (a) Registry.Monitor: the branch for an already watched key
	if f := c.fn(rule, discovInt, "(*Registry).Monitor"); f != nil {
		lP := paramOfType(f, discovInt+".UpdateListener")
		if lP == nil {
			c.R.Undecided(rule, discovInt+".(*Registry).Monitor", "the listener parameter resolves", "no parameter of type UpdateListener")
		} else {
			ps := c.paths(rule, f, px.Config{MaxVisits: 2})
			getCur := calleeIs(discovInt + ".(*cluster).getCurrent")
			n := 0
			held := c.forall(rule, discovInt+".(*Registry).Monitor", "a listener joining an already watched key is appended to the watcher's listeners (under the cluster lock) before the current values are read and replayed to it: no event can fall between the snapshot and the subscription", f, ps, func(p *px.Path) (bool, string) {
				registered := false
				for i := range p.Events {
					e := &p.Events[i]
					switch {
					case e.Kind == px.EvStore && px.FieldAddrIs(e.Addr, "listeners", nil) && dependsOn(p, e.Val, p.ParamSym(lP)):
						registered = true
					case e.Kind == px.EvCall && !e.Inlined && e.Call.Static != nil && (e.Call.Static.Name() == "addListener" || e.Call.Static.Name() == "monitor"):
						for _, a := range e.Call.Args {
							if isParam(a, lP) {
								registered = true
							}
						}
					case getCur(e):
						n++
						if !registered {
							return false, "the current values are read (getCurrent) before the listener is attached to the shared watch: a PUT or DELETE delivered in between reaches neither the snapshot nor the new listener, which then disagrees with the registry for good"
						}
					case e.Kind == px.EvCall && e.Call.Method != nil && e.Call.Method.Name() == "OnAdd" && e.Call.Recv != nil && isParam(e.Call.Recv, lP):
						if !registered {
							return false, "values are replayed to the listener before it is attached to the shared watch"
						}
					}
				}
				if p.Exit == px.ExitReturn && !registered && len(p.Results) == 1 && p.Abs(p.Results[0]).K == px.Nil {
					return false, "Monitor reports success without having registered the listener"
				}
				return true, ""
			})
			if held && n == 0 {
				c.R.Undecided(rule, discovInt+".(*Registry).Monitor#replay", "the replay of the current values is recognised", "no call of (*cluster).getCurrent on any path")
			}
		}
	}
	// (b) cluster.monitor: first watcher of a key — addListener precedes the initial load (whose handleChanges
	// dispatches the snapshot to the registered listeners) and the start of the watch.
	if f := c.fn(rule, discovInt, "(*cluster).monitor"); f != nil {
		ps := c.paths(rule, f, px.Config{})
		add := calleeIs(discovInt + ".(*cluster).addListener")
		load := calleeIs(discovInt + ".(*cluster).load")
		c.forall(rule, discovInt+".(*cluster).monitor", "the first listener of a key is registered before the initial load dispatches the snapshot, and the load's revision is where the watch starts", f, ps, func(p *px.Path) (bool, string) {
			ld := p.First(load)
			if ld == nil {
				if p.Exit == px.ExitReturn && len(p.Results) == 1 && p.Abs(p.Results[0]).K == px.Nil {
					return false, "success without loading the current values"
				}
				return true, ""
			}
			ad := p.First(add)
			if ad == nil || ad.Seq > ld.Seq {
				return false, "the snapshot is loaded (and dispatched) before the listener is registered: the listener misses the initial values"
			}
			return true, ""
		})
	}
	c.R.Min(rule, 2, "Registry.Monitor, cluster.monitor")
}

// c13atomicSnapshot (R10, round 5): the snapshot a (re)load hands to the diff and the revision the watch resumes from
// come from ONE read. In (*cluster).load no response of the store is consumed inside the loop that fetches
// responses (the retry loop only tests the error): a snapshot assembled page by page is read at several revisions,
// and a key that changed in an earlier page after that page was read — but before the last page's revision — is in
// neither the snapshot nor the watch that starts after that revision (seed r5-C13-3).
func c13atomicSnapshot(c *Ctx) {
	rule := "C13.R10"
	f := c.fn(rule, discovInt, "(*cluster).load")
	if f == nil {
		return
	}
	isResp := func(t types.Type) bool { return strings.HasSuffix(typeString(t), ".GetResponse") }
	inCycleWith := func(a, b *ssa.BasicBlock) bool {
		return (a == b && reaches(a, a)) || (reaches(a, b) && reaches(b, a))
	}
	var bad []string
	sources := 0
	for _, b := range f.Blocks {
		for _, ins := range b.Instrs {
			call, ok := ins.(*ssa.Call)
			if !ok {
				continue
			}
			// a call producing a response (directly or as a tuple component)
			var resp ssa.Value
			if pt, ok := call.Type().(*types.Pointer); ok && isResp(pt.Elem()) {
				resp = call
			} else if tup, ok := call.Type().(*types.Tuple); ok {
				for i := 0; i < tup.Len(); i++ {
					if pt, ok := tup.At(i).Type().(*types.Pointer); ok && isResp(pt.Elem()) {
						for _, r := range *call.Referrers() {
							if ex, ok := r.(*ssa.Extract); ok && ex.Index == i {
								resp = ex
							}
						}
					}
				}
			}
			if resp == nil {
				continue
			}
			sources++
			// follow the response through local variables and phis; report consumers inside the fetch loop
			seen := map[ssa.Value]bool{}
			var follow func(v ssa.Value)
			follow = func(v ssa.Value) {
				if v == nil || seen[v] || v.Referrers() == nil {
					return
				}
				seen[v] = true
				for _, r := range *v.Referrers() {
					switch x := r.(type) {
					case *ssa.Store:
						if al, ok := x.Addr.(*ssa.Alloc); ok && x.Val == v {
							for _, lr := range *al.Referrers() {
								if u, ok := lr.(*ssa.UnOp); ok {
									follow(u)
								}
							}
							continue
						}
					case *ssa.Phi:
						follow(x)
						continue
					case *ssa.DebugRef:
						continue
					case *ssa.BinOp:
						continue // nil test
					case *ssa.Return:
						continue
					}
					if ri, ok := r.(ssa.Instruction); ok && ri.Block() != nil && inCycleWith(call.Block(), ri.Block()) {
						bad = append(bad, fmt.Sprintf("%s: a response is consumed inside the loop that fetches responses (%s): the snapshot is assembled from several reads", c.P.Pos(ri.Pos()), strings.SplitN(ri.String(), "\n", 2)[0]))
					}
				}
			}
			follow(resp)
		}
	}
	sort.Strings(bad)
	if len(bad) > 3 {
		bad = bad[:3]
	}
	c.R.Check(len(bad) == 0 && sources >= 1, rule, discovInt+".(*cluster).load#one-read", "the snapshot handed to the diff and the revision the watch resumes from are taken from one response: nothing consumes a response inside the loop that fetches them", posOf(c, f), fmt.Sprintf("%d response sources; %s", sources, strings.Join(bad, "; ")), bad, sources)
}

// c13waitHolding (R11, round 5): no function of the discovery registry waits for its watch goroutines while holding a
// lock those goroutines take. For every function of the package that calls RoutineGroup.Wait / WaitGroup.Wait on a
// path where a mutex field is held: if a function reachable (static calls inside the package) from a closure handed to
// the same kind of group (`….Run(func)`, `go`) locks a mutex field of the same name and receiver type, the wait can
// never finish once such a goroutine is about to take the lock — every later Monitor/Unmonitor/Subscribe on the
// cluster blocks behind it.
func c13waitHolding(c *Ctx) {
	rule := "C13.R11"
	// (1) which mutex fields are taken by code running on the package's own goroutines
	starts := map[*ssa.Function]bool{}
	for _, f := range c.P.AllFuncs(discovInt) {
		for _, b := range f.Blocks {
			for _, ins := range b.Instrs {
				var fnv ssa.Value
				switch x := ins.(type) {
				case *ssa.Go:
					fnv = x.Call.Value
				case ssa.CallInstruction:
					if sc := x.Common().StaticCallee(); sc != nil && (sc.Name() == "Run" || sc.Name() == "RunSafe") && strings.Contains(calleeName(x.Common()), "RoutineGroup") {
						if len(x.Common().Args) >= 2 {
							fnv = x.Common().Args[1]
						}
					}
				}
				if t := boundTarget(fnv); t != nil {
					starts[t] = true
				}
			}
		}
	}
	reach := map[*ssa.Function]bool{}
	var work []*ssa.Function
	for f := range starts {
		work = append(work, f)
	}
	for len(work) > 0 {
		f := work[len(work)-1]
		work = work[:len(work)-1]
		if reach[f] || f.Blocks == nil {
			continue
		}
		reach[f] = true
		for _, a := range f.AnonFuncs {
			work = append(work, a)
		}
		for _, b := range f.Blocks {
			for _, ins := range b.Instrs {
				if call, ok := ins.(ssa.CallInstruction); ok {
					if sc := call.Common().StaticCallee(); sc != nil && sc.Pkg == f.Pkg {
						work = append(work, sc)
					}
				}
			}
		}
	}
	lockField := func(cc *ssa.CallCommon) string {
		sc := cc.StaticCallee()
		if sc == nil || sc.Pkg == nil || sc.Pkg.Pkg.Path() != "sync" || len(cc.Args) == 0 {
			return ""
		}
		if sc.Name() != "Lock" && sc.Name() != "RLock" {
			return ""
		}
		if fa, ok := cc.Args[0].(*ssa.FieldAddr); ok {
			return typeString(fa.X.Type()) + "." + fieldNameOf(fa)
		}
		return ""
	}
	takenByGoroutines := map[string]string{}
	for f := range reach {
		for _, b := range f.Blocks {
			for _, ins := range b.Instrs {
				if call, ok := ins.(ssa.CallInstruction); ok {
					if lf := lockField(call.Common()); lf != "" {
						if _, dup := takenByGoroutines[lf]; !dup {
							takenByGoroutines[lf] = funcDisplay(f)
						}
					}
				}
			}
		}
	}
	// (2) functions that wait for a group while holding such a lock
	n := 0
	for _, f := range c.P.AllFuncs(discovInt) {
		if f.Parent() != nil {
			continue
		}
		waits := callsInBody(f, func(cc *ssa.CallCommon) bool {
			nm := calleeName(cc)
			return strings.HasSuffix(nm, "RoutineGroup).Wait") || nm == "(*sync.WaitGroup).Wait"
		})
		if !waits {
			continue
		}
		n++
		ps := c.paths(rule, f, px.Config{MaxVisits: 2})
		c.forall(rule, funcDisplay(f), "the wait for the package's goroutines happens without holding a mutex that code running on those goroutines takes", f, ps, func(p *px.Path) (bool, string) {
			held := map[string]int{}
			for i := range p.Events {
				e := &p.Events[i]
				if e.Kind != px.EvCall || e.Call == nil || e.Call.Obj() == nil {
					continue
				}
				o := e.Call.Obj()
				if o.Pkg() != nil && o.Pkg().Path() == "sync" && e.Call.Recv != nil && e.Call.Recv.Kind == px.KFieldAddr {
					key := typeString(e.Call.Recv.X.Typ) + "." + fieldNameOfSym(e.Call.Recv)
					switch o.Name() {
					case "Lock", "RLock":
						held[key]++
					case "Unlock", "RUnlock":
						held[key]--
					}
				}
				if o.Name() == "Wait" && (strings.HasSuffix(shortName(e.Call), "RoutineGroup).Wait") || shortName(e.Call) == "sync.(*WaitGroup).Wait") {
					for k, cnt := range held {
						if cnt > 0 {
							if who, ok := takenByGoroutines[k]; ok {
								return false, fmt.Sprintf("waits for the goroutines of a routine group while holding %s, which %s — running on such a goroutine — locks: a goroutine that is about to take the lock (a watcher applying an event, a reload after compaction) never finishes, the wait never returns, and the lock is never released", k, who)
							}
						}
					}
				}
			}
			return true, ""
		})
	}
	if n == 0 {
		c.R.Undecided(rule, discovInt+"#waits", "the functions that wait for the watch goroutines are recognised", "none found")
	}
}

func fieldNameOfSym(s *px.Sym) string {
	if v := s.FieldVar(); v != nil {
		return v.Name()
	}
	return "?"
}

// c13loadApplies (R12, round 6): every snapshot is applied. Each return of (*cluster).load passes through
// c.handleChanges(key, snapshot) exactly once, for the key it was asked to load — also when the snapshot is empty:
// handleChanges is what diffs the previous view against the snapshot, and an empty snapshot after a reconnect or a
// compaction is exactly the case where every registration must be removed (the watch resumes after the snapshot's
// revision, so the missed DELETE events are never replayed).
func c13loadApplies(c *Ctx) {
	rule := "C13.R12"
	f := c.fn(rule, discovInt, "(*cluster).load")
	if f == nil {
		return
	}
	keyP := paramOfType(f, mod+"core/discov/internal.watchKey")
	if keyP == nil {
		for _, p := range f.Params {
			if strings.HasSuffix(typeString(p.Type()), "watchKey") {
				keyP = p
			}
		}
	}
	if keyP == nil {
		c.R.Undecided(rule, discovInt+".(*cluster).load", "load has a key parameter", "not found")
		return
	}
	hc := calleeIs(discovInt + ".(*cluster).handleChanges")
	ps := c.paths(rule, f, px.Config{MaxVisits: 2})
	c.forall(rule, discovInt+".(*cluster).load#applies", "every return of load has applied the snapshot through handleChanges(key, …) exactly once — an empty snapshot included", f, ps, func(p *px.Path) (bool, string) {
		if p.Exit != px.ExitReturn {
			return true, ""
		}
		es := p.All(hc)
		if len(es) != 1 {
			return false, fmt.Sprintf("handleChanges ×%d on a returning path: the previous view is not diffed against this snapshot (registrations that vanished while disconnected stay for good)", len(es))
		}
		if !isParam(es[0].Call.Args[1], keyP) {
			return false, "the snapshot is applied under another key"
		}
		return true, ""
	})
}

// c13kubeTombstone (R13): what the informer delivers. client-go hands OnDelete the deleted object — or, when the watch
// missed the deletion (it happened while the connection was down and was noticed by the re-list), a
// cache.DeletedFinalStateUnknown tombstone that carries the last known state. A path of OnDelete that returns without
// examining the address set must therefore have found the argument to be neither: it has tested it (or what a tombstone
// carries) against *v1.Endpoints AND tested it against the tombstone type. A handler that only knows *v1.Endpoints
// treats the tombstone as a foreign object, and the addresses of an Endpoints object deleted during a disconnect stay
// published for good (the model of the deliverer's output, as C17.R10 has it for the YAML decoder).
func c13kubeTombstone(c *Ctx) {
	rule := "C13.R13"
	pkg := "zrpc/resolver/internal/kube"
	f := c.fn(rule, pkg, "(*EventHandler).OnDelete")
	if f == nil {
		return
	}
	if len(f.Params) < 2 {
		c.R.Undecided(rule, pkg+".(*EventHandler).OnDelete", "OnDelete has the object parameter", "not found")
		return
	}
	objP := f.Params[1]
	assertedName := func(s *px.Sym) string {
		if s == nil || s.Kind != px.KTypeAssert {
			return ""
		}
		ta, ok := s.V.(*ssa.TypeAssert)
		if !ok {
			return ""
		}
		t := ta.AssertedType
		if p, ok := t.(*types.Pointer); ok {
			t = p.Elem()
		}
		if n, ok := t.(*types.Named); ok && n.Obj().Pkg() != nil {
			return n.Obj().Pkg().Path() + "." + n.Obj().Name()
		}
		return ""
	}
	ps := c.paths(rule, f, px.Config{MaxVisits: 2, MaxPaths: 100000, Inline: func(ci *px.CallInfo, d int) bool {
		return ci.Static != nil && ci.Static.Pkg == f.Pkg && d < 2 && ci.Static.Name() != "notify"
	}})
	c.forall(rule, pkg+".(*EventHandler).OnDelete#tombstone", "a delete event is left unapplied only after the object was found to be neither an *v1.Endpoints nor the informer's DeletedFinalStateUnknown tombstone (a deletion missed by the watch arrives as a tombstone carrying the last known state)", f, ps, func(p *px.Path) (bool, string) {
		if p.Exit != px.ExitReturn || p.Has(lockOn("lock", "Lock")) {
			return true, ""
		}
		sawEndpoints, sawTomb := false, false
		for i := range p.Events {
			e := &p.Events[i]
			if e.Kind != px.EvBranch {
				continue
			}
			cn := e.Cond.Strip(false)
			if cn.Kind != px.KExtract || cn.Index != 1 || cn.X == nil || cn.X.Kind != px.KTypeAssert {
				continue
			}
			switch assertedName(cn.X) {
			case "k8s.io/api/core/v1.Endpoints":
				sawEndpoints = true
			case "k8s.io/client-go/tools/cache.DeletedFinalStateUnknown":
				if dependsOn(p, cn.X.X, p.ParamSym(objP)) {
					sawTomb = true
				}
			}
		}
		if !sawEndpoints {
			return false, "a delete event is dropped without a type test of the object"
		}
		if !sawTomb {
			return false, "an object that is not an *v1.Endpoints is dropped without testing for cache.DeletedFinalStateUnknown: a deletion the watch missed (delivered as a tombstone after the re-list) never removes the addresses"
		}
		return true, ""
	})
}

// c13optionsFirst (R14, round 7): a subscriber is assembled from its options. NewSubscriber hands the option functions
// the Subscriber under construction; whatever it derives from that object's fields — the container built for
// `exclusive`, the arguments of Monitor (`exactMatch`, `items`) — is read only after the last option ran. A field read
// (and acted upon) before the option loop freezes the default: `Exclusive()` then sets a flag nobody looks at any more
// and the container keeps every key of a value instead of the most recent one.
func c13optionsFirst(c *Ctx) {
	rule := "C13.R14"
	pkg := "core/discov"
	f := c.fn(rule, pkg, "NewSubscriber")
	if f == nil {
		return
	}
	// the fields an option can set: every field stored through the parameter of a func(*Subscriber) of the package
	optionFields := map[string]bool{}
	for _, g := range c.P.AllFuncs(pkg) {
		if g.Signature.Params().Len() != 1 || g.Signature.Results().Len() != 0 || !strings.HasSuffix(typeString(g.Signature.Params().At(0).Type()), "discov.Subscriber") || len(g.Params) == 0 {
			continue
		}
		for _, b := range g.Blocks {
			for _, ins := range b.Instrs {
				if st, ok := ins.(*ssa.Store); ok {
					if fa, ok := st.Addr.(*ssa.FieldAddr); ok && fa.X == ssa.Value(g.Params[len(g.Params)-1]) {
						if pt, ok := fa.X.Type().Underlying().(*types.Pointer); ok {
							if stt, ok := pt.Elem().Underlying().(*types.Struct); ok {
								optionFields[stt.Field(fa.Field).Name()] = true
							}
						}
					}
				}
			}
		}
	}
	if len(optionFields) == 0 {
		c.R.Undecided(rule, pkg+".NewSubscriber#option-fields", "the fields the option functions set are recognised", "none found")
		return
	}
	ps := c.paths(rule, f, px.Config{MaxVisits: 2})
	applied := 0
	c.forall(rule, pkg+".NewSubscriber#options-first", "no field of the Subscriber under construction that an option can set is read before the last option function was applied to it (the container and the Monitor arguments are derived from the configured object)", f, ps, func(p *px.Path) (bool, string) {
		var firstRead *px.Event
		for i := range p.Events {
			e := &p.Events[i]
			switch {
			case e.Kind == px.EvLoad && e.Addr != nil && e.Addr.Kind == px.KFieldAddr:
				if b := e.Addr.X.Strip(false); b != nil && b.Kind == px.KAlloc && strings.HasSuffix(typeString(b.Typ), "discov.Subscriber") && firstRead == nil {
					if _, fname, _ := e.Addr.FieldAddrOf(); optionFields[fname] {
						firstRead = e
					}
				}
			case e.Kind == px.EvCall && e.Call != nil && e.Call.FnSym != nil:
				takes := false
				for _, a := range e.Call.Args {
					if s := a.Strip(false); s != nil && s.Kind == px.KAlloc && strings.HasSuffix(typeString(s.Typ), "discov.Subscriber") {
						takes = true
					}
				}
				if !takes {
					continue
				}
				applied++
				if firstRead != nil {
					_, fname, _ := firstRead.Addr.FieldAddrOf()
					return false, "field " + fname + " is read at " + c.P.Pos(firstRead.Pos) + " before an option is applied at " + c.P.Pos(e.Pos) + ": the option's setting comes too late for what was derived from the field"
				}
			}
		}
		return true, ""
	})
	if applied == 0 {
		c.R.Undecided(rule, pkg+".NewSubscriber#options", "the application of the option functions is recognised", "no dynamic call taking the new Subscriber")
	}
}

// c13stickyDisconnect (R15, round 8): "full reloads after reconnect". A connection comes back the way gRPC does it —
// TransientFailure → (Idle →) Connecting → Ready — so "was disconnected" must survive the states in between: it is a
// flag of the watcher, set on every path that sees TransientFailure or Shutdown, tested (and cleared) on the Ready path
// that notifies the listeners, and touched nowhere else. Deriving it from the state directly before Ready misses every
// real reconnect (the state before Ready is Connecting) and the view stays on the pre-outage snapshot.
func c13stickyDisconnect(c *Ctx) {
	rule := "C13.R15"
	f := c.fn(rule, discovInt, "(*stateWatcher).updateState")
	if f == nil {
		return
	}
	ps := c.paths(rule, f, px.Config{})
	notify := calleeIs(discovInt + ".(*stateWatcher).notifyListeners")
	flag := ""
	sawDown, sawReady := 0, 0
	c.forall(rule, discovInt+".(*stateWatcher).updateState#sticky", "a disconnection (TransientFailure/Shutdown) sets a flag of the watcher on every path; the listeners are notified exactly on the Ready path that finds the flag set, and that path clears it; no other path touches the flag or notifies", f, ps, func(p *px.Path) (bool, string) {
		if p.Exit != px.ExitReturn {
			return true, ""
		}
		state := int64(-1)
		for _, b := range p.All(px.KindIs(px.EvBranch)) {
			cn := b.Cond.Strip(true)
			if cn == nil || cn.Kind != px.KBinOp || cn.Op != token.EQL || !b.Taken {
				continue
			}
			if k, ok := constInt(p, cn.Y); ok {
				state = k
			} else if k, ok := constInt(p, cn.X); ok {
				state = k
			}
		}
		var sets, clears []string
		for _, s := range p.All(px.KindIs(px.EvStore)) {
			if s.Addr == nil || s.Addr.Kind != px.KFieldAddr {
				continue
			}
			_, fname, _ := s.Addr.FieldAddrOf()
			switch p.Abs(s.Val).K {
			case px.True:
				sets = append(sets, fname)
			case px.False:
				clears = append(clears, fname)
			}
		}
		ns := p.Count(notify)
		switch state {
		case 3, 4: // connectivity.TransientFailure, connectivity.Shutdown
			sawDown++
			if len(sets) != 1 {
				return false, "a path that sees TransientFailure/Shutdown does not record the disconnection in a flag of the watcher: by the time the connection is Ready again (through Idle/Connecting) nothing remembers it, and no reload is triggered"
			}
			if flag == "" {
				flag = sets[0]
			} else if flag != sets[0] {
				return false, "the disconnection is recorded in different fields"
			}
			if ns != 0 {
				return false, "listeners are notified while disconnected"
			}
		case 2: // connectivity.Ready
			sawReady++
			tested := false
			for _, b := range p.All(px.KindIs(px.EvBranch)) {
				if b.Cond != nil && b.Cond.Strip(false).Kind == px.KLoad && b.Cond.Strip(false).X != nil && b.Cond.Strip(false).X.Kind == px.KFieldAddr {
					_, fname, _ := b.Cond.Strip(false).X.FieldAddrOf()
					if flag == "" || fname == flag {
						tested = true
						if b.Taken && (ns != 1 || len(clears) != 1) {
							return false, "Ready after a disconnection does not notify the listeners once and clear the flag"
						}
						if !b.Taken && ns != 0 {
							return false, "Ready without a preceding disconnection notifies the listeners"
						}
					}
				}
			}
			if !tested {
				return false, "the Ready path does not consult the disconnection flag (whether to reload is decided from something that does not survive the intermediate states)"
			}
		default:
			if ns != 0 || len(sets) != 0 || len(clears) != 0 {
				return false, "an intermediate state notifies or touches the disconnection flag"
			}
		}
		return true, ""
	})
	if sawDown == 0 || sawReady == 0 {
		c.R.Undecided(rule, discovInt+".(*stateWatcher).updateState#cases", "the TransientFailure/Shutdown and Ready cases are recognised", fmt.Sprintf("down=%d ready=%d", sawDown, sawReady))
	}
}

// c13targetKey (R16, round 8): the key the resolver subscribes to is the registration key. Publishers register under
// `key/<lease>` and a subscriber watches the prefix `key/`: a key that still carries a slash at either end (a target
// written `etcd://hosts/user.rpc/`, or with a doubled slash) watches `user.rpc//` and sees nothing. The value
// GetEndpoints returns is the target's path trimmed of slashes at BOTH ends: derived through strings.Trim(·, "/"), or a
// left trim and a right trim. (grpc's own Target.Endpoint() removes one leading slash only.)
func c13targetKey(c *Ctx) {
	rule := "C13.R16"
	pkg := "zrpc/resolver/internal/targets"
	f := c.fn(rule, pkg, "GetEndpoints")
	if f == nil {
		return
	}
	left, right, sawPath := false, false, false
	var walk func(v ssa.Value, d int)
	seen := map[ssa.Value]bool{}
	walk = func(v ssa.Value, d int) {
		if v == nil || seen[v] || d > 12 {
			return
		}
		seen[v] = true
		switch x := v.(type) {
		case *ssa.Call:
			if cal := x.Call.StaticCallee(); cal != nil && cal.Pkg != nil && cal.Pkg.Pkg.Path() == "strings" && len(x.Call.Args) == 2 {
				cut, _ := x.Call.Args[1].(*ssa.Const)
				slash := cut != nil && cut.Value != nil && cut.Value.Kind() == constant.String && strings.Contains(constant.StringVal(cut.Value), "/")
				if slash {
					switch cal.Name() {
					case "Trim":
						left, right = true, true
					case "TrimLeft", "TrimPrefix":
						left = true
					case "TrimRight", "TrimSuffix":
						right = true
					}
				}
				walk(x.Call.Args[0], d+1)
				return
			}
			for _, a := range x.Call.Args {
				walk(a, d+1)
			}
			if x.Call.IsInvoke() {
				walk(x.Call.Value, d+1)
			}
		case *ssa.Phi:
			for _, e := range x.Edges {
				walk(e, d+1)
			}
		case *ssa.UnOp:
			walk(x.X, d+1)
		case *ssa.FieldAddr:
			if fieldNameAt(x.X.Type(), x.Field) == "Path" {
				sawPath = true
			}
			walk(x.X, d+1)
		case *ssa.Field:
			if st, ok := x.X.Type().Underlying().(*types.Struct); ok && st.Field(x.Field).Name() == "Path" {
				sawPath = true
			}
			walk(x.X, d+1)
		}
	}
	rets := 0
	for _, b := range f.Blocks {
		if len(b.Instrs) == 0 {
			continue
		}
		if r, ok := b.Instrs[len(b.Instrs)-1].(*ssa.Return); ok && len(r.Results) == 1 {
			rets++
			walk(r.Results[0], 0)
		}
	}
	c.R.Check(rets >= 1 && left && right && sawPath, rule, pkg+".GetEndpoints#trimmed", "the subscription key is the target's path with the slashes trimmed at both ends (a key ending in '/' watches the prefix `key//` and matches no registration)", c.P.Pos(f.Pos()), fmt.Sprintf("derives from URL.Path=%v, left trim=%v, right trim=%v", sawPath, left, right), nil, rets)
}
