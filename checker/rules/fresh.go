package rules

import (
	"fmt"
	"go/token"
	"go/types"
	"sort"
	"strings"

	"golang.org/x/tools/go/ssa"
)

// Per-iteration freshness lint: inside a loop that stores one decoded element per
// iteration into a container (reflect SetMapIndex / Set on an indexed element /
// reflect.Append), a target allocated with reflect.New must be allocated inside the
// same loop — otherwise all elements alias one object and hold the last value.

func naturalLoops(f *ssa.Function) []map[*ssa.BasicBlock]bool {
	var loops []map[*ssa.BasicBlock]bool
	for _, t := range f.Blocks {
		for _, h := range t.Succs {
			if !h.Dominates(t) {
				continue
			}
			body := map[*ssa.BasicBlock]bool{h: true}
			stack := []*ssa.BasicBlock{t}
			for len(stack) > 0 {
				b := stack[len(stack)-1]
				stack = stack[:len(stack)-1]
				if body[b] {
					continue
				}
				body[b] = true
				stack = append(stack, b.Preds...)
			}
			loops = append(loops, body)
		}
	}
	return loops
}

// derivesFromNew follows reflect.Value method chains / phis back to a reflect.New call.
func derivesFromNew(v ssa.Value, d int, seen map[ssa.Value]bool) *ssa.Call {
	if v == nil || d > 8 || seen[v] {
		return nil
	}
	seen[v] = true
	switch x := v.(type) {
	case *ssa.Call:
		n := calleeName(x.Common())
		if n == "reflect.New" {
			return x
		}
		if len(x.Call.Args) > 0 && (n == "(reflect.Value).Elem" || n == "(reflect.Value).Addr" || n == "(reflect.Value).Interface" || n == "(reflect.Value).Convert" || n == "reflect.Indirect") {
			return derivesFromNew(x.Call.Args[0], d+1, seen)
		}
	case *ssa.Phi:
		for _, e := range x.Edges {
			if c := derivesFromNew(e, d+1, seen); c != nil {
				return c
			}
		}
	case *ssa.UnOp:
		return derivesFromNew(x.X, d+1, seen)
	case *ssa.MakeInterface:
		return derivesFromNew(x.X, d+1, seen)
	case *ssa.ChangeType:
		return derivesFromNew(x.X, d+1, seen)
	}
	return nil
}

// freshPerIteration checks every function of the package; returns the number of (store, allocation) pairs examined.
func (c *Ctx) freshPerIteration(rule, pkg string) int {
	pairs := 0
	for _, f := range c.P.AllFuncs(pkg) {
		loops := naturalLoops(f)
		if len(loops) == 0 {
			continue
		}
		var bad []string
		local := 0
		for _, b := range f.Blocks {
			for _, ins := range b.Instrs {
				call, ok := ins.(*ssa.Call)
				if !ok {
					continue
				}
				n := calleeName(call.Common())
				var stored []ssa.Value
				switch n {
				case "(reflect.Value).SetMapIndex":
					if len(call.Call.Args) == 3 {
						stored = []ssa.Value{call.Call.Args[2]}
					}
				case "(reflect.Value).Set":
					if len(call.Call.Args) == 2 {
						stored = []ssa.Value{call.Call.Args[1]}
					}
				case mod + "core/mapping.SetMapIndexValue", mod + "core/mapping.SetValue":
					for _, a := range call.Call.Args[1:] {
						stored = append(stored, a)
					}
				}
				for _, sv := range stored {
					nw := derivesFromNew(sv, 0, map[ssa.Value]bool{})
					if nw == nil {
						continue
					}
					for _, l := range loops {
						if l[b] {
							pairs++
							local++
							if !l[nw.Block()] {
								bad = append(bad, fmt.Sprintf("%s stores a value allocated by reflect.New at %s, outside the loop it runs in", c.P.Pos(call.Pos()), c.P.Pos(nw.Pos())))
							}
						}
					}
				}
			}
		}
		if local == 0 {
			continue
		}
		name := pkg + "." + f.Name()
		if f.Signature.Recv() != nil {
			name = pkg + ".(" + namedStructOf(f.Signature.Recv().Type()) + ")." + f.Name()
		}
		c.R.Check(len(bad) == 0, rule, name+"#fresh", "each element stored into a map/slice inside a loop is decoded into a target allocated in that same iteration (elements never alias one another)", posOf(c, f),
			fmt.Sprintf("%v: every entry receives the same pointer, so all entries alias one object holding the last-decoded values", bad), bad, local)
	}
	return pairs
}

// loopVarCaptures lists closures created inside a loop that capture (by reference) a variable which lives
// OUTSIDE the loop but is assigned in it — under the module's Go version (< 1.22) the range/loop variable is
// one shared cell, so a closure that runs later (goroutine, deferred, task group) sees the last value.
func loopVarCaptures(c *Ctx, f *ssa.Function) []string {
	var out []string
	loops := naturalLoops(f)
	for _, l := range loops {
		for b := range l {
			for _, ins := range b.Instrs {
				mc, ok := ins.(*ssa.MakeClosure)
				if !ok {
					continue
				}
				// only closures that are handed to something that may run them later
				escapes := false
				for _, r := range *mc.Referrers() {
					switch r := r.(type) {
					case *ssa.Go, *ssa.Defer:
						escapes = true
					case *ssa.Call:
						if r.Call.Value != ssa.Value(mc) { // passed as an argument, not called directly
							escapes = true
						}
					}
				}
				if !escapes {
					continue
				}
				for _, bv := range mc.Bindings {
					al, ok := bv.(*ssa.Alloc)
					if !ok || l[al.Block()] {
						continue
					}
					// assigned inside the loop?
					for _, r := range *al.Referrers() {
						if st, ok := r.(*ssa.Store); ok && st.Addr == ssa.Value(al) && l[st.Block()] {
							out = append(out, fmt.Sprintf("%s: closure captures loop variable %q by reference (go.mod < 1.22: one shared variable for all iterations)", c.P.Pos(mc.Pos()), al.Comment))
							break
						}
					}
				}
			}
		}
	}
	return out
}

// pooledEscapes lists return statements of f whose value aliases an object that f hands back to a pool
// (sync.Pool.Put, directly or deferred): the caller would keep reading storage that the next Get hands to
// someone else. Aliasing is followed through slicing, field/index addresses, phis, conversions that do not copy,
// and the accessor methods of bytes.Buffer that return its internal storage.
func pooledEscapes(c *Ctx, f *ssa.Function) []string {
	pooled := map[ssa.Value]bool{}
	for _, b := range f.Blocks {
		for _, ins := range b.Instrs {
			ci, ok := ins.(ssa.CallInstruction)
			if !ok {
				continue
			}
			cc := ci.Common()
			callee := cc.StaticCallee()
			if callee == nil || callee.Name() != "Put" || len(cc.Args) < 2 {
				continue
			}
			if s := callee.String(); s != "(*sync.Pool).Put" && !strings.HasSuffix(s, "BufferPool).Put") {
				continue
			}
			v := cc.Args[1]
			for {
				switch x := v.(type) {
				case *ssa.MakeInterface:
					v = x.X
					continue
				case *ssa.ChangeInterface:
					v = x.X
					continue
				}
				break
			}
			pooled[v] = true
			// the same object seen through its interface form / type assertion
			if ta, ok := v.(*ssa.TypeAssert); ok {
				pooled[ta.X] = true
			}
		}
	}
	if len(pooled) == 0 {
		return nil
	}
	alias := map[ssa.Value]bool{}
	for v := range pooled {
		alias[v] = true
	}
	aliasingAccessor := func(cc *ssa.CallCommon) bool {
		callee := cc.StaticCallee()
		if callee == nil {
			return false
		}
		switch callee.String() {
		case "(*bytes.Buffer).Bytes", "(*bytes.Buffer).Next", "(*bytes.Buffer).AvailableBuffer":
			return len(cc.Args) > 0 && alias[cc.Args[0]]
		}
		return false
	}
	holder := map[*ssa.Alloc]bool{}
	for changed := true; changed; {
		changed = false
		add := func(v ssa.Value) {
			if !alias[v] {
				alias[v] = true
				changed = true
			}
		}
		for _, b := range f.Blocks {
			for _, ins := range b.Instrs {
				switch x := ins.(type) {
				case *ssa.Store:
					// result variables spilled to locals by a defer
					if al, ok := x.Addr.(*ssa.Alloc); ok && alias[x.Val] && !holder[al] {
						holder[al] = true
						changed = true
					}
				case *ssa.Slice:
					if alias[x.X] {
						add(x)
					}
				case *ssa.FieldAddr:
					if alias[x.X] {
						add(x)
					}
				case *ssa.IndexAddr:
					if alias[x.X] {
						add(x)
					}
				case *ssa.UnOp:
					if al, ok := x.X.(*ssa.Alloc); ok && x.Op == token.MUL && holder[al] {
						add(x)
					}
					if x.Op == token.MUL && alias[x.X] {
						if _, isPtrOrSlice := x.Type().Underlying().(*types.Basic); !isPtrOrSlice {
							add(x)
						}
					}
				case *ssa.Phi:
					for _, e := range x.Edges {
						if alias[e] {
							add(x)
						}
					}
				case *ssa.ChangeType:
					if alias[x.X] {
						add(x)
					}
				case *ssa.MakeInterface:
					if alias[x.X] {
						add(x)
					}
				case *ssa.TypeAssert:
					if alias[x.X] {
						add(x)
					}
				case *ssa.Extract:
					if alias[x.Tuple] {
						add(x)
					}
				case *ssa.Call:
					if aliasingAccessor(x.Common()) {
						add(x)
					}
				}
			}
		}
	}
	var out []string
	for _, b := range f.Blocks {
		for _, ins := range b.Instrs {
			ret, ok := ins.(*ssa.Return)
			if !ok {
				continue
			}
			for _, r := range ret.Results {
				if alias[r] {
					if _, isBasic := r.Type().Underlying().(*types.Basic); isBasic {
						continue // strings and numbers are copies
					}
					out = append(out, fmt.Sprintf("%s: the returned %s aliases an object this function returns to a pool (the next Get may overwrite it while the caller still reads it)", c.P.Pos(ret.Pos()), r.Type()))
				}
			}
		}
	}
	return out
}

// asyncBatchOwned (round 4): a slice handed to a function that reads it from a goroutine it starts (an
// asynchronous consumer: the call returns before the elements have been read) must be owned by that hand-off —
// built from nil/make by this call of the caller — and not kept by the caller in a field or package variable.
// A scratch buffer reused across calls (buf = x.scratch[:0] … x.scratch = buf) is overwritten by the next
// hand-off while the goroutine of the previous one is still reading it.
// Returns the violations and the number of hand-off call sites examined.
func (c *Ctx) asyncBatchOwned(pkg string) (bad []string, sites int) {
	// asynchronous consumers: functions with a slice parameter captured by a closure they start with `go`
	type consumer struct {
		f   *ssa.Function
		idx int
	}
	var consumers []consumer
	for _, f := range c.P.AllFuncs(pkg) {
		if f.Parent() != nil {
			continue
		}
		for i, p := range f.Params {
			if _, ok := p.Type().Underlying().(*types.Slice); !ok {
				continue
			}
			captured := false
			for _, b := range f.Blocks {
				for _, ins := range b.Instrs {
					g, ok := ins.(*ssa.Go)
					if !ok {
						continue
					}
					mc, ok := g.Call.Value.(*ssa.MakeClosure)
					if !ok {
						continue
					}
					for _, bnd := range mc.Bindings {
						if bnd == p {
							captured = true
						}
						if al, ok := bnd.(*ssa.Alloc); ok {
							for _, r := range *al.Referrers() {
								if st, ok := r.(*ssa.Store); ok && st.Addr == al && st.Val == p {
									captured = true
								}
							}
						}
					}
				}
			}
			if captured {
				consumers = append(consumers, consumer{f, i})
			}
		}
	}
	var rootOf func(v ssa.Value, seen map[ssa.Value]bool) []string
	rootOf = func(v ssa.Value, seen map[ssa.Value]bool) []string {
		if v == nil || seen[v] {
			return nil
		}
		seen[v] = true
		switch x := v.(type) {
		case *ssa.Const:
			return nil // nil slice
		case *ssa.MakeSlice:
			return nil
		case *ssa.Alloc:
			return nil // backing array of a literal made by this call
		case *ssa.Phi:
			var out []string
			for _, e := range x.Edges {
				out = append(out, rootOf(e, seen)...)
			}
			return out
		case *ssa.Slice:
			return rootOf(x.X, seen)
		case *ssa.Call:
			if b, ok := x.Call.Value.(*ssa.Builtin); ok && b.Name() == "append" {
				return rootOf(x.Call.Args[0], seen)
			}
			return []string{"the result of " + calleeName(x.Common())}
		case *ssa.UnOp:
			switch a := x.X.(type) {
			case *ssa.FieldAddr:
				return []string{"field " + fieldNameOf(a)}
			case *ssa.Global:
				return []string{"package variable " + a.Name()}
			case *ssa.Alloc:
				var out []string
				for _, r := range *a.Referrers() {
					if st, ok := r.(*ssa.Store); ok && st.Addr == a {
						out = append(out, rootOf(st.Val, seen)...)
					}
				}
				return out
			}
			return []string{"a value loaded from memory"}
		case *ssa.Parameter:
			return []string{"parameter " + x.Name()}
		}
		return []string{v.Name()}
	}
	for _, f := range c.P.AllFuncs(pkg) {
		for _, b := range f.Blocks {
			for _, ins := range b.Instrs {
				call, ok := ins.(ssa.CallInstruction)
				if !ok {
					continue
				}
				sc := call.Common().StaticCallee()
				for _, cs := range consumers {
					if sc != cs.f || cs.idx >= len(call.Common().Args) {
						continue
					}
					sites++
					arg := call.Common().Args[cs.idx]
					for _, r := range rootOf(arg, map[ssa.Value]bool{}) {
						bad = append(bad, fmt.Sprintf("%s: %s hands %s a slice that lives in %s — the goroutine %s starts may still be reading the previous batch from the same backing array", c.P.Pos(ins.Pos()), f.Name(), cs.f.Name(), r, cs.f.Name()))
					}
					// the caller keeps no reference: the argument (or a value it was built from) is not stored into a field/global
					var chain []ssa.Value
					seen := map[ssa.Value]bool{}
					var collect func(v ssa.Value)
					collect = func(v ssa.Value) {
						if v == nil || seen[v] {
							return
						}
						seen[v] = true
						chain = append(chain, v)
						switch x := v.(type) {
						case *ssa.Phi:
							for _, e := range x.Edges {
								collect(e)
							}
						case *ssa.Slice:
							collect(x.X)
						case *ssa.Call:
							if bi, ok := x.Call.Value.(*ssa.Builtin); ok && bi.Name() == "append" {
								collect(x.Call.Args[0])
							}
						}
					}
					collect(arg)
					for _, v := range chain {
						if v.Referrers() == nil {
							continue
						}
						for _, r := range *v.Referrers() {
							if st, ok := r.(*ssa.Store); ok && st.Val == v {
								switch a := st.Addr.(type) {
								case *ssa.FieldAddr:
									bad = append(bad, fmt.Sprintf("%s: %s keeps the slice it hands to %s in field %s", c.P.Pos(st.Pos()), f.Name(), cs.f.Name(), fieldNameOf(a)))
								case *ssa.Global:
									bad = append(bad, fmt.Sprintf("%s: %s keeps the slice it hands to %s in package variable %s", c.P.Pos(st.Pos()), f.Name(), cs.f.Name(), a.Name()))
								}
							}
						}
					}
				}
			}
		}
	}
	sort.Strings(bad)
	return
}
