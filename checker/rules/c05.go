package rules

import (
	"fmt"
	"go/constant"
	"go/token"
	"go/types"
	"sort"
	"strings"

	"golang.org/x/tools/go/ssa"

	"gzverify/px"
)

// C05 — concurrency caps: semaphore inventories and release on every exit.
func init() { register("C05", "other", c05) }

func c05(c *Ctx) {
	c.R.RuleText = "channel-as-semaphore inventories (who may touch + operation shapes), path rules with panic exits for every acquire/release pairing, Pool typestate under its lock"
	c.R.Explain = "Structural necessary conditions of C05: Limit's permit channel is a buffered channel of the configured size touched only by blocking send (Borrow), non-blocking send (TryBorrow) and non-blocking receive (Return → ErrLimitReturn when empty); TimeoutLimit grants only after a successful TryBorrow; Pool state only under its lock, created++ only below the limit, created-- paired with destroy, a handed-out node is unlinked first; TaskRunner / MapReduce / fx workers take a slot before the goroutine starts and release slot and wait-group exactly once on every exit incl. panic; MaxConnsHandler returns the permit iff it was borrowed. The cap itself then follows from Go's buffered-channel semantics. NOT decided: fairness/timing, Cond wake-up races."
	c.R.Assume = append(c.R.Assume, "Go buffered-channel semantics (a channel of capacity n holds at most n elements)", "panics originate in user callbacks / wrapped handlers")
	c05limit(c)
	c05timeoutLimit(c)
	c05pool(c)
	c05workers(c)
	c05rescue(c)
	c05maxconns(c)
	c05options(c)
	// R8 (round 8): the cap is in the chain of every route
	chainContains(c, "C05.R8", "MaxConns", "MaxConnsHandler", "the max-connections limiter")
}

func c05limit(c *Ctx) {
	rule := "C05.R1"
	pkg := "core/syncx"
	isPool := func(s *px.Sym) bool {
		s = s.Strip(false)
		if s.Kind == px.KField {
			v := s.FieldVar()
			return v != nil && v.Name() == "pool"
		}
		return px.IsFieldLoad(s, "pool", nil)
	}
	if f := c.fn(rule, pkg, "NewLimit"); f != nil {
		ps := c.paths(rule, f, px.Config{})
		c.forall(rule, "core/syncx.NewLimit", "the permit channel is make(chan, n) with n the constructor argument", f, ps, func(p *px.Path) (bool, string) {
			ok := false
			for _, e := range p.All(px.KindIs(px.EvStore)) {
				if px.FieldAddrIs(e.Addr, "pool", nil) {
					v := e.Val.Strip(false)
					if v.Kind == px.KMakeChan && isParam(v.X, f.Params[0]) {
						ok = true
					}
				}
			}
			if !ok {
				return false, "pool is not make(chan, n)"
			}
			return true, ""
		})
	}
	type shape struct {
		name, text string
		check      func(p *px.Path) (bool, string)
	}
	shapes := []shape{
		{"(Limit).Borrow", "Borrow = one blocking send on the permit channel", func(p *px.Path) (bool, string) {
			sends := p.All(px.KindIs(px.EvSend))
			if len(sends) != 1 || !isPool(sends[0].Addr) || p.Has(px.KindIs(px.EvSelect)) || p.Has(px.KindIs(px.EvRecv)) {
				return false, "not exactly one blocking send on pool"
			}
			return true, ""
		}},
		{"(Limit).TryBorrow", "TryBorrow = non-blocking send: true iff the send succeeded", func(p *px.Path) (bool, string) {
			sel := p.All(px.KindIs(px.EvSelect))
			if len(sel) != 1 || sel[0].Blocking || sel[0].SelN != 1 {
				return false, "not a single non-blocking select with one case"
			}
			r := p.Abs(p.Results[0]).K
			if sel[0].SelIndex == 0 {
				if sel[0].SelDir != types.SendOnly || !isPool(sel[0].Addr) {
					return false, "the case is not a send on pool"
				}
				if r != px.True {
					return false, "successful send does not report true"
				}
			} else if r != px.False {
				return false, "full channel does not report false"
			}
			return true, ""
		}},
		{"(Limit).Return", "Return = non-blocking receive: nil iff a permit was taken back, ErrLimitReturn otherwise (capacity never grows)", func(p *px.Path) (bool, string) {
			sel := p.All(px.KindIs(px.EvSelect))
			if len(sel) != 1 || sel[0].Blocking || sel[0].SelN != 1 {
				return false, "not a single non-blocking select with one case"
			}
			if sel[0].SelIndex == 0 {
				if sel[0].SelDir != types.RecvOnly || !isPool(sel[0].Addr) {
					return false, "the case is not a receive on pool"
				}
				if !px.IsNilConst(p.Results[0]) {
					return false, "successful return reports an error"
				}
			} else if !px.IsGlobalLoad(p.Results[0], mod+"core/syncx", "ErrLimitReturn") {
				return false, "returning more than borrowed is not reported as ErrLimitReturn"
			}
			return true, ""
		}},
	}
	for _, s := range shapes {
		f := c.fn(rule, pkg, s.name)
		if f == nil {
			continue
		}
		ps := c.paths(rule, f, px.Config{})
		c.forall(rule, "core/syncx."+s.name, s.text, f, ps, s.check)
	}
	// who may touch Limit.pool
	allowed := map[string]bool{"NewLimit": true, "Borrow": true, "TryBorrow": true, "Return": true}
	var bad []string
	sites := 0
	for _, fn := range c.P.AllFuncs(pkg) {
		for _, b := range fn.Blocks {
			for _, ins := range b.Instrs {
				hit := false
				switch v := ins.(type) {
				case *ssa.FieldAddr:
					hit = fieldNameOf(v) == "pool" && isNamedStruct(v.X.Type(), "Limit")
				case *ssa.Field:
					if st, ok := v.X.Type().Underlying().(*types.Struct); ok {
						hit = st.Field(v.Field).Name() == "pool" && isNamedStruct(v.X.Type(), "Limit")
					}
				}
				if hit {
					sites++
					if !allowed[fn.Name()] {
						bad = append(bad, fn.String()+" at "+c.P.Pos(ins.Pos()))
					}
				}
			}
		}
	}
	o := c.R.Check(len(bad) == 0 && sites >= 4, rule, "core/syncx.Limit.pool", "the permit channel is touched only by NewLimit, Borrow, TryBorrow and Return (no close, no other send/receive)", "-", strings.Join(bad, "; "), nil, 0)
	o.Sites = sites
	c.R.Min(rule, 5, "NewLimit, Borrow, TryBorrow, Return, touchers")
}

func c05timeoutLimit(c *Ctx) {
	rule := "C05.R2"
	pkg := "core/syncx"
	if f := c.fn(rule, pkg, "(TimeoutLimit).Borrow"); f != nil {
		ps := c.paths(rule, f, px.Config{MaxVisits: 2})
		try := calleeIs("core/syncx.(TimeoutLimit).TryBorrow")
		c.forall(rule, "core/syncx.(TimeoutLimit).Borrow", "nil is returned only right after a TryBorrow() that succeeded on that path; failure returns ErrTimeout", f, ps, func(p *px.Path) (bool, string) {
			if p.Exit == px.ExitCut {
				return true, ""
			}
			if px.IsNilConst(p.Results[0]) {
				l := p.Last(try)
				if l == nil || p.Abs(l.Res).K != px.True {
					return false, "granted without a successful TryBorrow"
				}
				// no earlier successful TryBorrow whose permit would leak
				for _, e := range p.All(try) {
					if e != l && p.Abs(e.Res).K != px.False {
						return false, "a permit obtained earlier on the path is leaked"
					}
				}
				return true, ""
			}
			if !px.IsGlobalLoad(p.Results[0], mod+pkg, "ErrTimeout") {
				return false, "failure is not ErrTimeout"
			}
			for _, e := range p.All(try) {
				if p.Abs(e.Res).K != px.False {
					return false, "a permit was obtained but the borrow reports a timeout (leak)"
				}
			}
			return true, ""
		})
	}
	if f := c.fn(rule, pkg, "(TimeoutLimit).Return"); f != nil {
		ps := c.paths(rule, f, px.Config{})
		ret := calleeIs("core/syncx.(Limit).Return")
		sig := calleeIs("core/syncx.(*Cond).Signal")
		c.forall(rule, "core/syncx.(TimeoutLimit).Return", "the inner Return's error is propagated without signalling; success signals one waiter", f, ps, func(p *px.Path) (bool, string) {
			r := p.First(ret)
			if r == nil || p.Count(ret) != 1 {
				return false, "inner Return not called exactly once"
			}
			switch p.Abs(r.Res).K {
			case px.NonNil:
				if p.Results[0].Strip(false) != r.Res || p.Count(sig) != 0 {
					return false, "over-return is not reported unchanged / signals a waiter"
				}
			case px.Nil:
				if p.Count(sig) != 1 || !px.IsNilConst(p.Results[0]) && p.Results[0].Strip(false) != r.Res {
					return false, "successful return does not signal exactly one waiter"
				}
			default:
				return false, "inner error not tested"
			}
			return true, ""
		})
	}
	if f := c.fn(rule, pkg, "(TimeoutLimit).TryBorrow"); f != nil {
		ps := c.paths(rule, f, px.Config{})
		c.forall(rule, "core/syncx.(TimeoutLimit).TryBorrow", "delegates to the inner Limit.TryBorrow once and returns its verdict", f, ps, func(p *px.Path) (bool, string) {
			es := p.All(calleeIs("core/syncx.(Limit).TryBorrow"))
			if len(es) != 1 || p.Results[0].Strip(false) != es[0].Res {
				return false, "verdict not forwarded"
			}
			return true, ""
		})
	}
	c.R.Min(rule, 3, "Borrow, Return, TryBorrow")
}

// lockEvents: helper predicates for Lock/Unlock on a mutex held in field `field`
// (sync.Mutex, sync.RWMutex, sync.Locker).
func lockOn(field string, names ...string) px.Pred {
	return func(e *px.Event) bool {
		if e.Kind != px.EvCall || e.Call == nil {
			return false
		}
		o := e.Call.Obj()
		if o == nil || !nameIn(o.Name(), names) {
			return false
		}
		r := e.Call.Recv
		if r == nil {
			return false
		}
		return px.FieldAddrIs(r, field, nil) || px.IsFieldLoad(r, field, nil)
	}
}

// lockGuard checks on every path of f that each access (load/store) of the
// listed fields of the receiver happens while the mutex in `mu` is held.
// entryHeld: the function is entered with the lock held (helper).
func lockGuard(c *Ctx, rule, pkg, fname, mu string, fields []string, entryHeld bool, writeNeedsW bool) {
	lockGuardFn(c, rule, pkg+"."+fname, c.fn(rule, pkg, fname), mu, fields, entryHeld, writeNeedsW, nil, false)
}

// lockGuardFn: as lockGuard, on an arbitrary function (closure); inline lists
// same-package helpers analysed in place (entered with the lock held);
// noUserCalls additionally forbids calling user-supplied functions under the lock.
func lockGuardFn(c *Ctx, rule, cname string, f *ssa.Function, mu string, fields []string, entryHeld bool, writeNeedsW bool, inline []string, noUserCalls bool) {
	if f == nil {
		return
	}
	pkg, fname := "", cname
	ps := c.paths(rule, f, px.Config{MaxVisits: 2, MaxPaths: 50000, MayPanic: userPanics, Inline: func(ci *px.CallInfo, d int) bool {
		return ci.Static != nil && nameIn(ci.Static.Name(), inline)
	}})
	lock := lockOn(mu, "Lock")
	rlock := lockOn(mu, "RLock")
	unlock := lockOn(mu, "Unlock")
	runlock := lockOn(mu, "RUnlock")
	isGuarded := func(a *px.Sym) (string, bool) {
		if a == nil || a.Kind != px.KFieldAddr {
			return "", false
		}
		_, n, _ := a.FieldAddrOf()
		if !nameIn(n, fields) {
			return "", false
		}
		b := a.X.Strip(false)
		return n, b != nil && (b.Kind == px.KParam || b.Kind == px.KFreeVar || (b.Kind == px.KLoad && b.X != nil && b.X.Kind == px.KFreeVar))
	}
	c.forall(rule, pkg+fname, fmt.Sprintf("fields %v are accessed only while %s is held (writes under the write lock)", fields, mu), f, ps, func(p *px.Path) (bool, string) {
		w, r := 0, 0
		if entryHeld {
			w = 1
		}
		for i := range p.Events {
			e := &p.Events[i]
			switch {
			case lock(e):
				if w > 0 {
					return false, "Lock while the same mutex is already held (self-deadlock) at " + c.P.Pos(e.Pos)
				}
				w++
			case noUserCalls && e.Kind == px.EvCall && e.Call.IsDyn() && w+r > 0:
				return false, "a user-supplied function is called while the group lock is held at " + c.P.Pos(e.Pos)
			case unlock(e):
				w--
			case rlock(e):
				r++
			case runlock(e):
				r--
			case e.Kind == px.EvLoad:
				if n, ok := isGuarded(e.Addr); ok && w+r <= 0 {
					return false, fmt.Sprintf("%s read without the lock at %s", n, c.P.Pos(e.Pos))
				}
			case e.Kind == px.EvStore:
				if n, ok := isGuarded(e.Addr); ok && (w <= 0 && (writeNeedsW || r <= 0)) {
					return false, fmt.Sprintf("%s written without the lock at %s", n, c.P.Pos(e.Pos))
				}
			case e.Kind == px.EvMapUpdate || e.Kind == px.EvLookup:
				if e.Addr != nil && e.Addr.Kind == px.KLoad {
					if n, ok := isGuarded(e.Addr.X); ok {
						if e.Kind == px.EvMapUpdate && w <= 0 {
							return false, fmt.Sprintf("map %s updated without the write lock at %s", n, c.P.Pos(e.Pos))
						}
						if w+r <= 0 {
							return false, fmt.Sprintf("map %s read without the lock at %s", n, c.P.Pos(e.Pos))
						}
					}
				}
			case e.Kind == px.EvCall && e.Call.Builtin == "delete":
				if a := e.Call.Args[0]; a.Kind == px.KLoad {
					if n, ok := isGuarded(a.X); ok && w <= 0 {
						return false, fmt.Sprintf("delete from %s without the write lock at %s", n, c.P.Pos(e.Pos))
					}
				}
			}
		}
		if p.Exit != px.ExitCut && !entryHeld && (w != 0 || r != 0) {
			return false, fmt.Sprintf("lock not released on exit (%s)", p.Exit)
		}
		return true, ""
	})
}

func c05pool(c *Ctx) {
	rule := "C05.R3"
	pkg := "core/syncx"
	for _, m := range []string{"(*Pool).Get", "(*Pool).Put"} {
		lockGuard(c, rule+"a", pkg, m, "lock", []string{"created", "head"}, false, true)
	}
	f := c.fn(rule, pkg, "(*Pool).Get")
	if f == nil {
		return
	}
	ps := c.paths(rule, f, px.Config{MaxVisits: 2, MayPanic: userPanics})
	var lastCreated *px.Sym
	isCreatedStore := func(e *px.Event, delta int64) bool {
		if e.Kind != px.EvStore || !px.FieldAddrIs(e.Addr, "created", nil) {
			return false
		}
		v := e.Val
		if v.Kind != px.KBinOp {
			return false
		}
		op := token.ADD
		d := delta
		if delta < 0 {
			op, d = token.SUB, -delta
		}
		if v.Op != op || !(px.IsFieldLoad(v.X, "created", nil) || (lastCreated != nil && v.X == lastCreated)) {
			return false
		}
		cv, ok := v.Y.V.(*ssa.Const)
		return ok && cv.Value != nil && constant.Compare(cv.Value, token.EQL, constant.MakeInt64(d))
	}
	destroy := px.DynWhere(func(s *px.Sym) bool { return px.IsFieldLoad(s, "destroy", nil) })
	create := px.DynWhere(func(s *px.Sym) bool { return px.IsFieldLoad(s, "create", nil) })
	c.forall(rule, "core/syncx.(*Pool).Get", "created++ only on the branch created < limit and together with one create(); created-- paired one-to-one with destroy(item); a returned pooled item's node was unlinked (head = head.next) first", f, ps, func(p *px.Path) (bool, string) {
		inc, dec, ndestroy, ncreate := 0, 0, 0, 0
		below := false
		lastCreated = nil
		for i := range p.Events {
			e := &p.Events[i]
			if i > 0 {
				if pe := &p.Events[i-1]; pe.Kind == px.EvStore && px.FieldAddrIs(pe.Addr, "created", nil) {
					lastCreated = pe.Val
				}
			}
			switch {
			case e.Kind == px.EvBranch && e.Cond.Kind == px.KBinOp:
				x, y, op := e.Cond.X, e.Cond.Y, e.Cond.Op
				isCr := func(s *px.Sym) bool {
					return px.IsFieldLoad(s, "created", nil) || (lastCreated != nil && s == lastCreated)
				}
				if isCr(y) {
					x, y, op = y, x, flip(op)
				}
				if isCr(x) && px.IsFieldLoad(y, "limit", nil) {
					below = (op == token.LSS && e.Taken) || (op == token.GEQ && !e.Taken)
				}
			case isCreatedStore(e, 1):
				inc++
				if !below {
					return false, "created++ without created < limit on the path"
				}
				below = false
			case isCreatedStore(e, -1):
				dec++
			case e.Kind == px.EvStore && px.FieldAddrIs(e.Addr, "created", nil):
				return false, "created is written other than by ±1"
			case destroy(e):
				ndestroy++
			case create(e):
				ncreate++
				if inc != ncreate {
					return false, "create() without a matching created++ before it"
				}
			}
		}
		if p.Exit == px.ExitCut {
			if ndestroy > dec+0 && dec > 0 && ndestroy != dec {
				return false, fmt.Sprintf("destroy ×%d but created-- ×%d", ndestroy, dec)
			}
			return true, ""
		}
		createPanicked := false
		for _, e := range p.All(create) {
			if e.PanicsHere {
				createPanicked = true
			}
		}
		if createPanicked {
			// "after all holders have finished, including by panic, the full capacity is available again": the slot counted
			// for a resource whose creation panicked is given back
			if dec != ndestroy+1 {
				return false, fmt.Sprintf("create() panicked after created++ and the count is not taken back (created-- ×%d, destroy ×%d): the slot is lost for good — with limit 1 every later Get blocks although nothing is outstanding", dec, ndestroy)
			}
			return true, ""
		}
		if ndestroy != dec {
			return false, fmt.Sprintf("destroy ×%d but created-- ×%d (capacity leaks or grows)", ndestroy, dec)
		}
		if p.Exit == px.ExitReturn {
			if inc != ncreate {
				return false, fmt.Sprintf("created++ ×%d but create() ×%d", inc, ncreate)
			}
			r := p.Results[0].Strip(false)
			if r.Kind == px.KCall && r.Call != nil && r.Call.IsDyn() && px.IsFieldLoad(r.Call.FnSym, "create", nil) {
				return true, ""
			}
			// pooled item: load of node.item where node was p.head and p.head was advanced
			if r.Kind == px.KLoad && px.FieldAddrIs(r.X, "item", nil) {
				node := r.X.X
				unlinked := false
				for _, e := range p.All(px.KindIs(px.EvStore)) {
					if px.FieldAddrIs(e.Addr, "head", nil) && px.IsFieldLoad(e.Val, "next", func(b *px.Sym) bool { return b == node }) {
						unlinked = true
					}
				}
				if !unlinked {
					return false, "a pooled item is handed out while its node is still linked (two users could get it)"
				}
				return true, ""
			}
			return false, "returns neither a pooled item nor a created one: " + r.Describe()
		}
		return true, ""
	})
	if f := c.fn(rule, pkg, "(*Pool).Put"); f != nil {
		ps := c.paths(rule, f, px.Config{})
		c.forall(rule, "core/syncx.(*Pool).Put", "Put links the item in front of the idle list and signals one waiter", f, ps, func(p *px.Path) (bool, string) {
			var xsym *px.Sym
			for _, e := range p.All(px.KindIs(px.EvBranch)) {
				if e.Cond.Kind == px.KBinOp {
					for _, s := range []*px.Sym{e.Cond.X, e.Cond.Y} {
						if isParam(s, f.Params[1]) {
							xsym = s.Strip(false)
						}
					}
				}
			}
			for _, e := range p.All(px.KindIs(px.EvStore)) {
				if px.FieldAddrIs(e.Addr, "created", nil) {
					return false, "Put changes the number of created resources: returning something (or nothing) must never raise the capacity — an unmatched Put(nil) would hand out a resource beyond the limit"
				}
			}
			if xsym != nil && p.Abs(xsym).K == px.Nil {
				return true, ""
			}
			linked, item, next := false, false, false
			for _, e := range p.All(px.KindIs(px.EvStore)) {
				switch {
				case px.FieldAddrIs(e.Addr, "head", nil):
					linked = true
				case px.FieldAddrIs(e.Addr, "item", nil) && isParam(e.Val, f.Params[1]):
					item = true
				case px.FieldAddrIs(e.Addr, "next", nil) && px.IsFieldLoad(e.Val, "head", nil):
					next = true
				}
			}
			if !linked || !item || !next {
				return false, "the item is not linked in front of the idle list"
			}
			if p.Count(methodNamed("Signal")) != 1 {
				return false, "no waiter is signalled"
			}
			return true, ""
		})
	}
	// who may change the count: Get (and the constructor) only
	{
		var bad []string
		n := 0
		for _, pk := range c.P.Pkgs {
			rel := strings.TrimPrefix(pk.PkgPath, mod)
			for _, g := range c.P.AllFuncs(rel) {
				for _, b := range g.Blocks {
					for _, ins := range b.Instrs {
						st, ok := ins.(*ssa.Store)
						if !ok {
							continue
						}
						fa, ok := st.Addr.(*ssa.FieldAddr)
						if !ok || fieldNameOf(fa) != "created" || !strings.HasSuffix(typeString(fa.X.Type()), pkg+".Pool") {
							continue
						}
						n++
						root := g
						for root.Parent() != nil {
							root = root.Parent()
						}
						if rel != pkg || (root.Name() != "Get" && root.Name() != "NewPool") {
							bad = append(bad, c.P.Pos(st.Pos())+": "+funcDisplay(g)+" writes Pool.created")
						}
					}
				}
			}
		}
		sort.Strings(bad)
		c.R.Check(len(bad) == 0 && n >= 2, rule, "core/syncx.Pool.created#writers", "the count of created resources is changed only by Get (created++ with create, created-- with destroy)", "-", fmt.Sprintf("%d writes; %v", n, bad), bad, n)
	}
	c.R.Min(rule, 3, "Get, Put, writers of created")
	c.R.Min(rule+"a", 2, "lock guard Get, Put")
}

// ---- worker semaphores -------------------------------------------------

type semInst struct {
	rule, pkg, parent string
	outerGo           bool   // the parent's body of interest is its `go` closure
	sem, wg           string // chanKey of the semaphore / wait group ("" = none)
	userFn            func(s *px.Sym) bool
	userName          string
}

func spawnedClosure(e *px.Event) *ssa.Function {
	if e.Kind == px.EvGo && e.Call.Static != nil && e.Call.Static.Parent() != nil {
		return e.Call.Static
	}
	if e.Kind == px.EvCall && e.Call.Static != nil {
		n := shortName(e.Call)
		if n == "core/threading.GoSafe" || n == "core/threading.GoSafeCtx" {
			a := e.Call.Args[len(e.Call.Args)-1].Strip(false)
			if a.Kind == px.KClosure {
				return a.Fn
			}
		}
	}
	return nil
}

func c05workers(c *Ctx) {
	insts := []semInst{
		{"C05.R4", "core/threading", "(*TaskRunner).Schedule", false, "field:limitChan", "field:waitGroup", nil, "task"},
		{"C05.R4", "core/threading", "(*TaskRunner).ScheduleImmediately", false, "field:limitChan", "field:waitGroup", nil, "task"},
		{"C05.R6", "core/mr", "executeMappers", false, "var:pool", "var:wg", nil, "mapper"},
		{"C05.R6", "core/fx", "(Stream).walkLimited", true, "var:pool", "var:wg", nil, "fn"},
	}
	c05semInsts(c, insts)
	// ScheduleImmediately: busy ⇒ ErrTaskRunnerBusy and no goroutine
	if f := c.fn("C05.R4", "core/threading", "(*TaskRunner).ScheduleImmediately"); f != nil {
		ps := c.paths("C05.R4", f, px.Config{})
		c.forall("C05.R4", "core/threading.(*TaskRunner).ScheduleImmediately#busy", "no free slot ⇒ ErrTaskRunnerBusy and no goroutine; slot taken ⇒ nil and one goroutine", f, ps, func(p *px.Path) (bool, string) {
			sel := p.First(px.KindIs(px.EvSelect))
			if sel == nil || sel.Blocking {
				return false, "no non-blocking select on the slot channel"
			}
			gos := p.Count(px.KindIs(px.EvGo))
			if sel.SelIndex < 0 {
				if gos != 0 || !px.IsGlobalLoad(p.Results[0], mod+"core/threading", "ErrTaskRunnerBusy") {
					return false, "busy runner still starts the task or does not report ErrTaskRunnerBusy"
				}
			} else if gos != 1 || !px.IsNilConst(p.Results[0]) {
				return false, "accepted task is not started exactly once"
			}
			return true, ""
		})
	}
	if f := c.fn("C05.R4", "core/threading", "NewTaskRunner"); f != nil {
		ps := c.paths("C05.R4", f, px.Config{})
		c.forall("C05.R4", "core/threading.NewTaskRunner", "the slot channel has the configured capacity", f, ps, func(p *px.Path) (bool, string) {
			for _, e := range p.All(px.KindIs(px.EvStore)) {
				if px.FieldAddrIs(e.Addr, "limitChan", nil) {
					v := e.Val.Strip(false)
					if v.Kind == px.KMakeChan && isParam(v.X, f.Params[0]) {
						return true, ""
					}
				}
			}
			return false, "limitChan is not make(chan, concurrency)"
		})
	}
	// semaphore capacities and worker clamps
	semaphoreCapacity(c, "C05.R6", "core/mr", "executeMappers", "workers")
	semaphoreCapacity(c, "C05.R6", "core/fx", "(Stream).walkLimited", "workers")
	for _, pkg := range []string{"core/mr", "core/fx"} {
		workersClamp(c, "C05.R6", pkg)
	}
	// the gate in front of the bounded walk: the unbounded variant is chosen only by the explicit option
	if f := c.fn("C05.R6", "core/fx", "(Stream).Walk"); f != nil {
		ps := c.paths("C05.R6", f, px.Config{})
		unl := func(e *px.Event) bool {
			return e.Kind == px.EvCall && e.Call.Static != nil && e.Call.Static.Name() == "walkUnlimited"
		}
		lim := func(e *px.Event) bool {
			return e.Kind == px.EvCall && e.Call.Static != nil && e.Call.Static.Name() == "walkLimited"
		}
		c.forall("C05.R6", "core/fx.(Stream).Walk#gate", "the unbounded walk runs only when the unlimitedWorkers option was found set; every other path takes the walk bounded by the worker semaphore (no heuristic about the source decides that nothing needs throttling)", f, ps, func(p *px.Path) (bool, string) {
			if p.Exit != px.ExitReturn {
				return true, ""
			}
			set := false
			for _, b := range p.All(px.KindIs(px.EvBranch)) {
				if px.IsFieldLoad(b.Cond, "unlimitedWorkers", nil) && b.Taken {
					set = true
				}
			}
			if p.Has(unl) && !set {
				return false, "the unbounded walk is chosen on a path where the unlimitedWorkers option was not found set: WithWorkers(n) no longer bounds the number of concurrent invocations (a full buffered source is not a finished one)"
			}
			if !p.Has(unl) && p.Count(lim) != 1 {
				return false, "neither variant of the walk runs exactly once"
			}
			return true, ""
		})
		// and nobody else reaches the unbounded variant
		callers, all := pkgCallers(c, "core/fx")
		var bad []string
		for _, g := range all {
			if g.Name() == "walkUnlimited" {
				for cl := range callers[g] {
					if cl.Name() != "Walk" {
						bad = append(bad, "walkUnlimited called from "+cl.Name())
					}
				}
			}
		}
		sort.Strings(bad)
		c.R.Check(len(bad) == 0, "C05.R6", "core/fx.(Stream).walkUnlimited#callers", "the unbounded walk is reached only through Walk's option gate", "-", strings.Join(bad, "; "), bad, 1)
	}
	c.R.Min("C05.R4", 6, "Schedule acquire/release, ScheduleImmediately acquire/release/busy, NewTaskRunner")
	c.R.Min("C05.R6", 10, "executeMappers and walkLimited acquire/release/capacity, WithWorkers ×2")
}

func isEmptyStruct(t types.Type) bool {
	st, ok := t.(*types.Struct)
	return ok && st.NumFields() == 0
}

func sizeFromField(v ssa.Value, field string) bool {
	for d := 0; d < 6 && v != nil; d++ {
		switch x := v.(type) {
		case *ssa.UnOp:
			v = x.X
		case *ssa.Field:
			if st, ok := x.X.Type().Underlying().(*types.Struct); ok && st.Field(x.Field).Name() == field {
				return true
			}
			v = x.X
		case *ssa.FieldAddr:
			return fieldNameOf(x) == field
		case *ssa.Convert:
			v = x.X
		case *ssa.ChangeType:
			v = x.X
		default:
			return false
		}
	}
	return false
}

func c05rescue(c *Ctx) {
	rule := "C05.R4b"
	for _, n := range []string{"Recover", "RecoverCtx"} {
		f := c.fn(rule, "core/rescue", n)
		if f == nil {
			continue
		}
		ps := c.paths(rule, f, px.Config{MaxVisits: 2})
		cleanups := f.Params[len(f.Params)-1]
		c.forall(rule, "core/rescue."+n, "every cleanup runs (loop over the cleanups slice) before recover() is consulted, and recover() is consulted exactly once", f, ps, func(p *px.Path) (bool, string) {
			if p.Exit == px.ExitCut {
				return true, ""
			}
			rec := p.All(func(e *px.Event) bool { return e.Kind == px.EvCall && e.Call.Builtin == "recover" })
			if len(rec) != 1 {
				return false, fmt.Sprintf("recover() consulted %d times", len(rec))
			}
			for _, e := range p.All(func(e *px.Event) bool { return e.Kind == px.EvCall && e.Call.IsDyn() }) {
				if e.Seq > rec[0].Seq {
					return false, "a cleanup runs after recover()"
				}
				fs := e.Call.FnSym
				if !(fs.Kind == px.KLoad && fs.X != nil && fs.X.Kind == px.KIndexAddr && isParam(fs.X.X, cleanups)) {
					return false, "a function other than an element of cleanups is called"
				}
			}
			return true, ""
		})
		// the loop covers the slice: there is a path calling a cleanup
		any := false
		for _, p := range ps {
			if p.Has(func(e *px.Event) bool { return e.Kind == px.EvCall && e.Call.IsDyn() }) {
				any = true
			}
		}
		c.R.Check(any, rule, "core/rescue."+n+"#calls", "cleanups are actually invoked", posOf(c, f), "no path invokes a cleanup", nil, len(ps))
	}
	if f := c.fn(rule, "core/threading", "RunSafe"); f != nil {
		ps := c.paths(rule, f, px.Config{MayPanic: userPanics, Model: stdModel})
		c.forall(rule, "core/threading.RunSafe", "RunSafe calls fn once under a deferred rescue.Recover (a panic does not escape)", f, ps, func(p *px.Path) (bool, string) {
			if p.Count(px.DynWhere(func(s *px.Sym) bool { return isParam(s, f.Params[0]) })) != 1 {
				return false, "fn not called exactly once"
			}
			if p.Exit == px.ExitPanic {
				return false, "a panic of fn escapes RunSafe"
			}
			return true, ""
		})
	}
	c.R.Min(rule, 5, "Recover(+calls), RecoverCtx(+calls), RunSafe")
}

func c05maxconns(c *Ctx) {
	rule := "C05.R5"
	f := c.fn(rule, "rest/handler", "MaxConnsHandler")
	if f == nil {
		return
	}
	cl := c.closure(rule, f, "serving closure", func(a *ssa.Function) bool {
		return callsInBody(a, func(cc *ssa.CallCommon) bool { return cc.IsInvoke() && cc.Method.Name() == "ServeHTTP" })
	})
	if cl == nil {
		return
	}
	next := func(e *px.Event) bool {
		return e.Kind == px.EvCall && e.Call.Method != nil && e.Call.Method.Name() == "ServeHTTP"
	}
	ps := c.paths(rule, cl, px.Config{MayPanic: func(ci *px.CallInfo) bool { return ci.Method != nil && ci.Method.Name() == "ServeHTTP" }})
	try := calleeIs("core/syncx.(Limit).TryBorrow")
	ret := calleeIs("core/syncx.(Limit).Return")
	c.forall(rule, "rest/handler.MaxConnsHandler$serve", "permit borrowed ⇒ next×1 and Return×1 on every exit incl. panic; not borrowed ⇒ next×0, Return×0 and 503", cl, ps, func(p *px.Path) (bool, string) {
		t := p.First(try)
		if t == nil || p.Count(try) != 1 {
			return false, "TryBorrow not consulted exactly once"
		}
		switch p.Abs(t.Res).K {
		case px.True:
			if p.Count(next) != 1 {
				return false, fmt.Sprintf("handler ×%d", p.Count(next))
			}
			if p.Count(ret) != 1 {
				return false, fmt.Sprintf("permit returned ×%d on exit %s", p.Count(ret), p.Exit)
			}
			if p.First(ret).Seq < p.First(next).Seq {
				return false, "permit returned before the handler ran"
			}
		case px.False:
			if p.Count(next) != 0 {
				return false, "request beyond the cap reaches the handler"
			}
			if p.Count(ret) != 0 {
				return false, "a refused request returns a permit it never held (the cap grows)"
			}
			wh := p.All(func(e *px.Event) bool {
				return e.Kind == px.EvCall && e.Call.Method != nil && e.Call.Method.Name() == "WriteHeader"
			})
			if len(wh) != 1 {
				return false, "refusal writes no status"
			}
			if a := p.Abs(wh[0].Call.Args[0]); a.K != px.ConstV || !constant.Compare(a.C, token.EQL, constant.MakeInt64(503)) {
				return false, "refusal status is not 503"
			}
		default:
			return false, "TryBorrow verdict not tested"
		}
		return true, ""
	})
	// the latch is NewLimit(n) with the middleware's n, one latch per middleware (not per request)
	var sites []string
	var walk func(fn *ssa.Function)
	walk = func(fn *ssa.Function) {
		for _, b := range fn.Blocks {
			for _, ins := range b.Instrs {
				if call, ok := ins.(*ssa.Call); ok && calleeName(&call.Call) == mod+"core/syncx.NewLimit" {
					okArg := false
					if fv, ok := call.Call.Args[0].(*ssa.FreeVar); ok && fv.Name() == f.Params[0].Name() {
						okArg = true
					}
					if call.Call.Args[0] == f.Params[0] {
						okArg = true
					}
					if u, ok := call.Call.Args[0].(*ssa.UnOp); ok && u.Op == token.MUL {
						if fv, ok := u.X.(*ssa.FreeVar); ok && fv.Name() == f.Params[0].Name() {
							okArg = true
						}
					}
					sites = append(sites, fmt.Sprintf("%s:%v", fn.Name(), okArg && fn != cl))
				}
			}
		}
		for _, a := range fn.AnonFuncs {
			walk(a)
		}
	}
	walk(f)
	sort.Strings(sites)
	okLatch := len(sites) == 1 && strings.HasSuffix(sites[0], ":true")
	c.R.Check(okLatch, rule, "rest/handler.MaxConnsHandler#latch", "one Limit of the configured size n is created per middleware and shared by all requests", posOf(c, f), fmt.Sprintf("NewLimit sites: %v", sites), nil, 1)
	c.R.Min(rule, 2, "serve closure, latch")
}

// c05options: per-call option structs (worker limits) are fresh allocations, never shared package state.
func c05options(c *Ctx) {
	rule := "C05.R6"
	n := 0
	for _, pf := range []struct{ pkg, fn string }{{"core/fx", "newOptions"}, {"core/fx", "buildOptions"}, {"core/mr", "newOptions"}, {"core/mr", "buildOptions"}} {
		f := c.P.Func(pf.pkg, pf.fn)
		if f == nil || f.Blocks == nil {
			continue
		}
		n++
		ps := c.paths(rule, f, px.Config{MaxVisits: 2})
		c.forall(rule, pf.pkg+"."+pf.fn+"#fresh", "the options a call runs with are a fresh struct (defaults + this call's options): a worker limit set by one call must not leak into later calls", f, ps, func(p *px.Path) (bool, string) {
			if p.Exit != px.ExitReturn || len(p.Results) != 1 {
				return true, ""
			}
			r := p.Results[0].Strip(false)
			switch r.Kind {
			case px.KAlloc:
				return true, ""
			case px.KCall:
				if r.Call.Static != nil && (r.Call.Static.Name() == "newOptions") {
					return true, ""
				}
			}
			return false, "the options are not a fresh allocation (" + r.Describe() + "): they are shared between calls, so UnlimitedWorkers()/WithWorkers(n) of one call changes the limit of every later call"
		})
	}
	if n < 3 {
		c.R.Undecided(rule, "option constructors", "newOptions/buildOptions of fx and mr are found", fmt.Sprint(n))
	}
}

// isUserFn: the called function value is the parameter of that name (of the analysed function or
// of an enclosing one, reaching a closure as a free variable).
func isUserFn(s *px.Sym, name string) bool {
	for d := 0; s != nil && d < 6; d++ {
		s = s.Strip(false)
		if s == nil {
			return false
		}
		switch v := s.V.(type) {
		case *ssa.Parameter:
			return v.Name() == name
		case *ssa.FreeVar:
			return v.Name() == name
		}
		if s.Kind == px.KLoad || s.Kind == px.KFreeVar {
			if s.X == nil {
				return false
			}
			s = s.X
			continue
		}
		return false
	}
	return false
}

// workersClamp: the WithWorkers option of pkg sets the worker count on every path — to the requested
// value when that is at least minWorkers, else to minWorkers (≥ 1).
func workersClamp(c *Ctx, rule, pkg string) {
	f := c.fn(rule, pkg, "WithWorkers")
	if f == nil {
		return
	}
	cl := c.closure(rule, f, "option closure", func(a *ssa.Function) bool { return true })
	if cl == nil {
		return
	}
	minW := constVal(c, pkg, "minWorkers")
	ps := c.paths(rule, cl, px.Config{})
	c.forall(rule, pkg+".WithWorkers", "the worker count is clamped to at least minWorkers ≥ 1", cl, ps, func(p *px.Path) (bool, string) {
		if minW == nil || constant.Sign(minW) <= 0 {
			return false, "minWorkers is not ≥ 1"
		}
		var st *px.Event
		for _, e := range p.All(px.KindIs(px.EvStore)) {
			if px.FieldAddrIs(e.Addr, "workers", nil) {
				st = e
			}
		}
		if st == nil {
			return false, "there is a path on which the option leaves the worker count as it was (the constructor's default, not the requested or the minimum count): WithWorkers(1) then runs with the default number of workers"
		}
		if a := p.Abs(st.Val); a.K == px.ConstV {
			if !constant.Compare(a.C, token.EQL, minW) {
				return false, "clamped to something other than minWorkers"
			}
			return true, ""
		}
		// stores the requested value: must be on the branch workers >= minWorkers
		okb := false
		for _, e := range p.All(px.KindIs(px.EvBranch)) {
			if e.Cond.Kind != px.KBinOp {
				continue
			}
			x, y, op := e.Cond.X, e.Cond.Y, e.Cond.Op
			if isConstSym(x) {
				x, y, op = y, x, flip(op)
			}
			if x.Strip(false) == st.Val.Strip(false) && p.Abs(y).K == px.ConstV && constant.Compare(p.Abs(y).C, token.EQL, minW) {
				if (op == token.LSS && !e.Taken) || (op == token.GEQ && e.Taken) || (op == token.GTR && e.Taken) || (op == token.LEQ && !e.Taken) {
					okb = true
				}
			}
		}
		if !okb {
			return false, "the requested worker count is stored without the ≥ minWorkers test"
		}
		return true, ""
	})
}

// semaphoreCapacity: the worker semaphore of fn is a buffered chan struct{} whose capacity is loaded from the
// configured-workers field (not from some other quantity that happens to be equal today, e.g. another channel's capacity).
func semaphoreCapacity(c *Ctx, rule, pkg, fn, field string) {
	f := c.fn(rule, pkg, fn)
	if f == nil {
		return
	}
	ok := false
	var scan func(fn *ssa.Function)
	scan = func(fn *ssa.Function) {
		for _, b := range fn.Blocks {
			for _, ins := range b.Instrs {
				if mc, ok2 := ins.(*ssa.MakeChan); ok2 {
					if et := mc.Type().(*types.Chan).Elem().Underlying(); isEmptyStruct(et) {
						if sizeFromField(mc.Size, field) {
							ok = true
						}
					}
				}
			}
		}
		for _, a := range fn.AnonFuncs {
			scan(a)
		}
	}
	scan(f)
	c.R.Check(ok, rule, pkg+"."+fn+"#capacity", "the worker semaphore is a buffered channel whose capacity is the configured worker count", posOf(c, f), "no make(chan struct{}, <workers>) found: the number of concurrently running workers is no longer tied to the configured count (e.g. sized from another channel's capacity)", nil, 1)
}

// c05semInsts checks the acquire-before-spawn / release-on-every-exit discipline of worker semaphores (also used by C12
// for the task runner that delivers drained timers).
func c05semInsts(c *Ctx, insts []semInst) {
	for _, in := range insts {
		f := c.fn(in.rule, in.pkg, in.parent)
		if f == nil {
			continue
		}
		parent := f
		if in.outerGo {
			parent = c.closure(in.rule, f, "producer goroutine", func(a *ssa.Function) bool {
				return a.Parent() == f && len(a.AnonFuncs) > 0
			})
			if parent == nil {
				continue
			}
		}
		name := in.pkg + "." + in.parent
		ps := c.paths(in.rule, parent, px.Config{MaxVisits: 2, Model: stdModel})
		var worker *ssa.Function
		isWG := func(p *px.Path, e *px.Event, m string) bool {
			if e.Kind != px.EvCall || e.Call.Obj() == nil || e.Call.Obj().FullName() != "(*sync.WaitGroup)."+m {
				return false
			}
			return chanKey(p, e.Call.Recv) == in.wg
		}
		c.forall(in.rule, name+"#acquire", "a slot is taken (send on the semaphore) and the wait-group incremented before each worker goroutine starts; slots taken but not handed to a worker are given back before returning", parent, ps, func(p *px.Path) (bool, string) {
			held, added := 0, 0
			for i := range p.Events {
				e := &p.Events[i]
				switch {
				case (e.Kind == px.EvSend || (e.Kind == px.EvSelect && e.SelIndex >= 0 && e.SelDir == types.SendOnly)) && chanKey(p, e.Addr) == in.sem:
					held++
				case (e.Kind == px.EvRecv || (e.Kind == px.EvSelect && e.SelIndex >= 0 && e.SelDir == types.RecvOnly)) && chanKey(p, e.Addr) == in.sem:
					held--
				case e.Kind == px.EvClose && chanKey(p, e.Addr) == in.sem:
					return false, "the semaphore channel is closed"
				case isWG(p, e, "Add"):
					if a := p.Abs(e.Call.Args[1]); a.K != px.ConstV || !constant.Compare(a.C, token.EQL, constant.MakeInt64(1)) {
						return false, "wait-group incremented by something other than 1"
					}
					added++
				case isWG(p, e, "Done"):
					added--
				case e.Kind == px.EvCall && e.Call.IsDyn() && !e.InGo && isUserFn(e.Call.FnSym, in.userName):
					// the dispatcher runs the user function itself ("caller runs" when all slots are busy):
					// that invocation holds no slot, so n workers + the dispatcher = n+1 run at once (seed r3-C05-2)
					return false, "the user function is also run by the dispatching goroutine itself, outside any slot: with all slots taken one more invocation runs than the configured number of workers"
				default:
					if w := spawnedClosure(e); w != nil {
						worker = w
						if held < 1 {
							return false, "a worker starts without a slot having been taken first"
						}
						if added < 1 {
							return false, "a worker starts without the wait-group having been incremented"
						}
						held--
						added--
					}
				}
			}
			if p.Exit == px.ExitReturn && (held != 0 || added != 0) {
				return false, fmt.Sprintf("on return %d slot(s) and %d wait-group count(s) are neither handed to a worker nor given back", held, added)
			}
			return true, ""
		})
		if worker == nil {
			c.R.Undecided(in.rule, name+"#worker", "anchor resolves", "no worker goroutine closure found in "+name)
			continue
		}
		wps := c.paths(in.rule, worker, px.Config{Model: stdModel, MayPanic: userPanics})
		c.forall(in.rule, name+"#release", "the worker runs the user function once and, on every exit incl. its panic, releases its slot (one receive) and the wait-group (one Done), after the user function", worker, wps, func(p *px.Path) (bool, string) {
			users := p.All(func(e *px.Event) bool { return e.Kind == px.EvCall && e.Call.IsDyn() })
			if len(users) != 1 {
				return false, fmt.Sprintf("user function called %d times", len(users))
			}
			rel, done := 0, 0
			for i := range p.Events {
				e := &p.Events[i]
				switch {
				case (e.Kind == px.EvRecv || (e.Kind == px.EvSelect && e.SelIndex >= 0 && e.SelDir == types.RecvOnly)) && chanKey(p, e.Addr) == in.sem:
					rel++
					if e.Seq < users[0].Seq {
						return false, "slot released before the user function ran"
					}
				case (e.Kind == px.EvSend) && chanKey(p, e.Addr) == in.sem:
					return false, "worker sends on the semaphore"
				case isWG(p, e, "Done"):
					done++
					if e.Seq < users[0].Seq {
						return false, "wait-group released before the user function ran"
					}
				}
			}
			if rel != 1 || done != 1 {
				return false, fmt.Sprintf("slot released ×%d, wait-group Done ×%d on exit %s", rel, done, p.Exit)
			}
			return true, ""
		})
	}
}
