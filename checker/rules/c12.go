package rules

import (
	"fmt"
	"go/token"
	"go/types"
	"os"
	"sort"
	"strings"

	"golang.org/x/tools/go/ssa"

	"gzverify/px"
)

// C12 — timing wheel.
func init() { register("C12", "other", c12) }

const twPkg = "core/collection"

func c12(c *Ctx) {
	c.R.RuleText = "goroutine confinement of the wheel state (package call graph), per-element typestate of the scan and drain loops, API gate shape, closed forms by algebraic normal form, quotient/remainder pairing of the lazy-move encoding"
	c.R.Explain = "Structural necessary conditions of C12: slots, cursor, position entries and entry fields are written only by functions reachable solely from the run goroutine (the API only sends on channels and rejects delay<=0 / nil key); in every scan iteration a removed entry is unlinked and never fired, an entry with circle>0 is only decremented, an entry with diff>0 is relocated to slot (tickedPos+diff)%numSlots with its position entry updated and diff cleared, and only the remaining case fires — exactly once, unlinking the element and deleting the key; drain unlinks every element, fires exactly the non-removed ones and forgets their keys; set clamps short delays and places a new timer at getPositionAndCircle's slot with its circle; getPositionAndCircle has the closed forms named in the property; remove marks and forgets; a lazy move stores circle and diff as quotient and remainder (by numSlots) of one quantity that depends on the delay, the holding slot and the cursor and is known non-negative; otherwise the timer is re-inserted at the computed slot. NOT decided: the tick arithmetic in general (that the quantity is exactly steps minus the ticks until the holding slot is scanned), timing."
	c.R.Assume = append(c.R.Assume, "container/list semantics", "the ticker delivers one tick per interval")
	c12confinement(c)
	c12api(c)
	c12scan(c)
	c12drain(c)
	c12setRemove(c)
	c12forms(c)
	c12move(c)
	c12drainCoverage(c)
	// R9 (round 4): the batch of due timers handed to the goroutine that fires them belongs to that tick alone
	{
		bad, sites := c.asyncBatchOwned(twPkg)
		c.R.Check(len(bad) == 0 && sites >= 1, "C12.R9", twPkg+"#async-batches", "a slice handed to a function that reads it from a goroutine it starts (runTasks) is built from nil/make by that call and not kept by the caller: the next tick cannot overwrite timers the previous tick's goroutine has not fired yet", "-", fmt.Sprintf("%d hand-off sites; %s", sites, strings.Join(bad, "; ")), bad, sites)
	}
	if os.Getenv("GZV_ASYNC_SCAN") != "" {
		for _, pk := range c.P.Pkgs {
			bad, sites := c.asyncBatchOwned(strings.TrimPrefix(pk.PkgPath, mod))
			if sites > 0 {
				fmt.Println("ASYNC-SCAN", pk.PkgPath, sites, bad)
			}
		}
	}
	// R10 (round 6): Drain hands every pending timer to a bounded task runner; a callback that panics must give its slot
	// back, otherwise the ninth panicking delivery blocks Schedule inside drainAll for ever — the remaining timers are
	// never delivered and the wheel goroutine is stuck (the C05.R4 discipline, run here for the runner Drain depends on)
	c05semInsts(c, []semInst{{"C12.R10", "core/threading", "(*TaskRunner).Schedule", false, "field:limitChan", "field:waitGroup", nil, "task"}})
	// the in-memory cache is the wheel's main client: it must move/set the key's timer with the expiry of this call
	c16cacheAs(c, "C12.R7", true)
	// R11 (round 8): the tasks due at one tick are started from a loop — no closure started there captures the loop's
	// variable by reference (the module's Go version predates per-iteration loop variables: every goroutine would run the
	// last task, the others never fire)
	{
		var bad []string
		nfun := 0
		for _, fn := range c.P.AllFuncs(colPkg) {
			if fn.Parent() != nil {
				continue
			}
			nfun++
			bad = append(bad, loopVarCaptures(c, fn)...)
		}
		sort.Strings(bad)
		c.R.Check(len(bad) == 0 && nfun > 20, "C12.R11", colPkg+"#loopvars", "no closure started from inside a loop of core/collection captures the loop's variable by reference (each due timer is run by its own task)", "-", strings.Join(bad, "; "), bad, nfun)
	}
}

// c12drainCoverage (R8): Drain delivers *each* pending timer — the drain loop visits every slot of the wheel
// (seed r3-C12-3 started "right after the cursor" and never reached the slot under the cursor).
func c12drainCoverage(c *Ctx) {
	rule := "C12.R8"
	f := c.fn(rule, twPkg, "(*TimingWheel).drainAll")
	if f == nil {
		return
	}
	isSlots := func(v ssa.Value) bool {
		u, ok := v.(*ssa.UnOp)
		if !ok {
			return false
		}
		fa, ok := u.X.(*ssa.FieldAddr)
		return ok && fieldNameOf(fa) == "slots"
	}
	isBound := func(v ssa.Value) bool {
		if call, ok := v.(*ssa.Call); ok {
			if b, ok := call.Call.Value.(*ssa.Builtin); ok && b.Name() == "len" && len(call.Call.Args) == 1 && isSlots(call.Call.Args[0]) {
				return true
			}
		}
		if u, ok := v.(*ssa.UnOp); ok {
			if fa, ok := u.X.(*ssa.FieldAddr); ok && fieldNameOf(fa) == "numSlots" {
				return true
			}
		}
		return false
	}
	sites := 0
	var bad []string
	walkWithClosures(f, func(g *ssa.Function) {
		for _, b := range g.Blocks {
			for _, ins := range b.Instrs {
				var idx ssa.Value
				switch x := ins.(type) {
				case *ssa.IndexAddr:
					if isSlots(x.X) {
						idx = x.Index
					}
				case *ssa.Index:
					if isSlots(x.X) {
						idx = x.Index
					}
				}
				if idx == nil {
					continue
				}
				sites++
				if ok, why := fullRangeIndex(idx, isBound); !ok {
					bad = append(bad, c.P.Pos(ins.Pos())+": "+why)
				}
			}
		}
	})
	if sites == 0 {
		c.R.Undecided(rule, twPkg+".(*TimingWheel).drainAll#slots", "the slot loop is recognised", "no indexing of tw.slots found")
		return
	}
	// … and no slot loop is left early: the index of pending keys may be empty while live entries remain (a cancelled
	// twin left by a re-insert move forgets the key first), so "nothing left in timers" is not "nothing left to deliver"
	for _, ee := range earlyExitLoops(f) {
		if strings.HasPrefix(ee, "rangeindex") || strings.HasPrefix(ee, "for loop") {
			bad = append(bad, "the slot loop can be left before the last slot ("+ee+")")
		}
	}
	c.R.Check(len(bad) == 0, rule, twPkg+".(*TimingWheel).drainAll#slots", "the drain loop visits every slot of the wheel (a range over tw.slots, or a counting loop from the first to the last slot, possibly rotated): a slot that is skipped keeps its timers, which Drain then does not deliver", posOf(c, f), fmt.Sprint(bad), nil, sites)
}

// ---------------------------------------------------------------- helpers

// pkgCallers builds the reverse static call graph of a package (closures are
// attributed to their parents; `go`/`defer`/plain calls alike; function values
// referenced without being called count as calls).
func pkgCallers(c *Ctx, pkg string) (callers map[*ssa.Function]map[*ssa.Function]bool, all []*ssa.Function) {
	callers = map[*ssa.Function]map[*ssa.Function]bool{}
	all = c.P.AllFuncs(pkg)
	add := func(callee, caller *ssa.Function) {
		if callee == nil || callee == caller {
			return
		}
		if callers[callee] == nil {
			callers[callee] = map[*ssa.Function]bool{}
		}
		callers[callee][caller] = true
	}
	for _, f := range all {
		if p := f.Parent(); p != nil {
			add(f, p)
		}
		for _, b := range f.Blocks {
			for _, ins := range b.Instrs {
				if _, isGo := ins.(*ssa.Go); isGo {
					continue // a spawned function starts a new goroutine: it is a root of its own
				}
				for _, op := range ins.Operands(nil) {
					if op == nil || *op == nil {
						continue
					}
					switch v := (*op).(type) {
					case *ssa.Function:
						add(v, f)
					case *ssa.MakeClosure:
						if fn, ok := v.Fn.(*ssa.Function); ok {
							add(fn, f)
						}
					}
				}
			}
		}
	}
	return callers, all
}

// rootsOf returns the functions without in-package callers from which f is reachable.
func rootsOf(callers map[*ssa.Function]map[*ssa.Function]bool, f *ssa.Function) []*ssa.Function {
	seen := map[*ssa.Function]bool{}
	var roots []*ssa.Function
	var walk func(g *ssa.Function)
	walk = func(g *ssa.Function) {
		if seen[g] {
			return
		}
		seen[g] = true
		if len(callers[g]) == 0 {
			roots = append(roots, g)
			return
		}
		for cl := range callers[g] {
			walk(cl)
		}
	}
	walk(f)
	sort.Slice(roots, func(i, j int) bool { return roots[i].String() < roots[j].String() })
	return roots
}

func namedStructOf(t types.Type) string {
	if p, ok := t.Underlying().(*types.Pointer); ok {
		t = p.Elem()
	}
	if n, ok := t.(*types.Named); ok {
		return n.Obj().Name()
	}
	return ""
}

// ---------------------------------------------------------------- R1 confinement

func c12confinement(c *Ctx) {
	rule := "C12.R1"
	guarded := map[string][]string{
		"TimingWheel":   {"slots", "tickedPos"},
		"timingEntry":   {"circle", "diff", "removed", "value"},
		"positionEntry": {"pos", "item"},
	}
	callers, all := pkgCallers(c, twPkg)
	allowed := map[string]bool{"run": true, "NewTimingWheelWithTicker": true}
	sites := 0
	var bad []string
	mutators := map[string]bool{}
	for _, f := range all {
		isMut := false
		for _, b := range f.Blocks {
			for _, ins := range b.Instrs {
				switch ins := ins.(type) {
				case *ssa.Store:
					if fa, ok := ins.Addr.(*ssa.FieldAddr); ok {
						if nameIn(fieldNameOf(fa), guarded[namedStructOf(fa.X.Type())]) {
							// stores into a fresh composite literal are initialisation, not mutation
							if _, fresh := fa.X.(*ssa.Alloc); !fresh {
								isMut = true
								sites++
							}
						}
					}
				case ssa.CallInstruction:
					cc := ins.Common()
					n := calleeName(cc)
					if (n == "(*container/list.List).PushBack" || n == "(*container/list.List).Remove") && len(cc.Args) > 0 {
						isMut = true
						sites++
					}
					if strings.HasSuffix(n, "collection.SafeMap).Set") || strings.HasSuffix(n, "collection.SafeMap).Del") {
						if len(cc.Args) > 0 && viaField(cc.Args[0], "timers") {
							isMut = true
							sites++
						}
					}
				}
			}
		}
		if !isMut {
			continue
		}
		if recvName(f) != "TimingWheel" {
			continue // list/safemap helpers of other collections
		}
		mutators[f.Name()] = true
		for _, r := range rootsOf(callers, f) {
			if !allowed[r.Name()] || (recvName(r) != "TimingWheel" && r.Name() != "NewTimingWheelWithTicker") {
				bad = append(bad, fmt.Sprintf("%s is reachable from %s", f.Name(), r.Name()))
			}
		}
	}
	var ms []string
	for m := range mutators {
		ms = append(ms, m)
	}
	sort.Strings(ms)
	c.R.Extra["C12.R1_mutators"] = ms
	o := c.R.Check(len(bad) == 0 && len(ms) >= 6, rule, twPkg+".TimingWheel state", "slots, cursor, timers map and entry fields are mutated only by functions reachable solely from the run goroutine (or the constructor before it starts)", "-", fmt.Sprintf("%v (mutators found: %v)", bad, ms), nil, 0)
	o.Sites = sites
	// the constructor initialises the slots before starting the goroutine
	if f := c.fn(rule, twPkg, "NewTimingWheelWithTicker"); f != nil {
		ps := c.paths(rule, f, px.Config{})
		c.forall(rule, twPkg+".NewTimingWheelWithTicker", "initSlots() runs before `go tw.run()`; the cursor starts at numSlots-1", f, ps, func(p *px.Path) (bool, string) {
			g := p.First(px.KindIs(px.EvGo))
			in := p.First(calleeIs(twPkg + ".(*TimingWheel).initSlots"))
			if g == nil || in == nil || in.Seq > g.Seq {
				return false, "the goroutine is started before the slots are initialised"
			}
			if g.Call.Static == nil || g.Call.Static.Name() != "run" {
				return false, "the goroutine is not tw.run"
			}
			return true, ""
		})
	}
	c.R.Min(rule, 2, "state confinement, constructor order")
}

func recvName(f *ssa.Function) string {
	for f.Parent() != nil {
		f = f.Parent()
	}
	if f.Signature.Recv() == nil {
		return ""
	}
	return namedStructOf(f.Signature.Recv().Type())
}

// ---------------------------------------------------------------- R1b API gates

func c12api(c *Ctx) {
	rule := "C12.R1b"
	for _, a := range []struct {
		m, ch  string
		hasDel bool
	}{{"SetTimer", "setChannel", true}, {"MoveTimer", "moveChannel", true}, {"RemoveTimer", "removeChannel", false}, {"Drain", "drainChannel", false}} {
		f := c.fn(rule, twPkg, "(*TimingWheel)."+a.m)
		if f == nil {
			continue
		}
		ps := c.paths(rule, f, px.Config{})
		var delayP, keyP *ssa.Parameter
		for _, p := range f.Params {
			if p.Name() == "delay" {
				delayP = p
			}
			if p.Name() == "key" {
				keyP = p
			}
		}
		c.forall(rule, twPkg+".(*TimingWheel)."+a.m, "invalid arguments (delay <= 0, nil key) are rejected with ErrArgument before anything is sent; otherwise exactly one request is sent on the operation's own channel (or ErrClosed after Stop); the wheel state is not touched", f, ps, func(p *px.Path) (bool, string) {
			if p.Exit != px.ExitReturn {
				return true, ""
			}
			sel := p.All(px.KindIs(px.EvSelect))
			isArgErr := px.IsGlobalLoad(p.Results[0], mod+twPkg, "ErrArgument")
			if isArgErr {
				if len(sel) != 0 || p.Has(px.KindIs(px.EvSend)) {
					return false, "a rejected request is sent to the wheel"
				}
				return true, ""
			}
			// reaching the select requires valid arguments
			for _, e := range p.All(px.KindIs(px.EvBranch)) {
				cnd := e.Cond.Strip(true)
				if cnd.Kind != px.KBinOp {
					continue
				}
				if delayP != nil && isParam(cnd.X, delayP) {
					if z, ok := constInt(p, cnd.Y); ok && z == 0 && ordHolds(cnd.Op, 0) == e.Taken && ordHolds(cnd.Op, -1) == e.Taken {
						return false, "a non-positive delay is accepted"
					}
				}
			}
			if delayP != nil {
				ok := false
				for _, e := range p.All(px.KindIs(px.EvBranch)) {
					cnd := e.Cond.Strip(true)
					if cnd.Kind == px.KBinOp && isParam(cnd.X, delayP) {
						if z, isz := constInt(p, cnd.Y); isz && z == 0 && ((cnd.Op == token.LEQ && !e.Taken) || (cnd.Op == token.GTR && e.Taken)) {
							ok = true
						}
					}
				}
				if !ok {
					return false, "delay <= 0 is not rejected"
				}
			}
			if keyP != nil {
				ok := false
				for _, e := range p.All(px.KindIs(px.EvBranch)) {
					cnd := e.Cond.Strip(true)
					if cnd.Kind == px.KBinOp && (isParam(cnd.X, keyP) && px.IsNilConst(cnd.Y)) && ((cnd.Op == token.EQL && !e.Taken) || (cnd.Op == token.NEQ && e.Taken)) {
						ok = true
					}
				}
				if !ok {
					return false, "a nil key is not rejected"
				}
			}
			if len(sel) != 1 {
				return false, fmt.Sprintf("%d selects", len(sel))
			}
			s := sel[0]
			switch {
			case s.SelDir == types.SendOnly && px.IsFieldLoad(s.Addr, a.ch, nil):
				if !px.IsNilConst(p.Results[0]) {
					return false, "a sent request is reported as failed"
				}
			case s.SelDir == types.RecvOnly && px.IsFieldLoad(s.Addr, "stopChannel", nil):
				if !px.IsGlobalLoad(p.Results[0], mod+twPkg, "ErrClosed") {
					return false, "a stopped wheel does not report ErrClosed"
				}
			default:
				return false, "select case on an unexpected channel: " + s.Addr.Describe()
			}
			return true, ""
		})
	}
	c.R.Min(rule, 4, "SetTimer, MoveTimer, RemoveTimer, Drain")
}

// ---------------------------------------------------------------- R2/R3 scan loop

// entryOf finds the *timingEntry type-assert a sym is derived from (field address / load chain).
func entryOf(s *px.Sym) *px.Sym {
	for d := 0; s != nil && d < 8; d++ {
		if s.Kind == px.KTypeAssert && namedStructOf(s.Typ) == "timingEntry" {
			return s
		}
		s = s.X
	}
	return nil
}

type twIter struct {
	task                                    *px.Sym
	removed, circlePos, diffPos             int // 0 unknown, 1 true, -1 false
	unlink, fire, del, decCircle, clearDiff int
	push, setPos                            []*px.Event
	otherStores                             []string
	complete                                bool
}

func triOf(taken bool) int {
	if taken {
		return 1
	}
	return -1
}

// twIterations segments a loop path of scanAndRunTasks / drainAll into per-entry records.
func twIterations(c *Ctx, p *px.Path) []*twIter {
	var its []*twIter
	var cur *twIter
	start := func(t *px.Sym) {
		if cur != nil && cur.task == nil {
			cur.task = t
			return
		}
		if cur == nil || cur.task != t {
			if cur != nil {
				cur.complete = true
			}
			cur = &twIter{task: t}
			its = append(its, cur)
		}
	}
	isFld := func(s *px.Sym, name string) bool {
		return fieldLoadDeep(s, name, func(b *px.Sym) bool { return cur != nil && b == cur.task })
	}
	for i := range p.Events {
		e := &p.Events[i]
		switch e.Kind {
		case px.EvLoad:
			if e.Addr.Kind == px.KFieldAddr && e.Addr.FieldVar() != nil && e.Addr.FieldVar().Name() == "Value" && namedStructOf(e.Addr.X.Typ) == "Element" {
				// `task := e.Value.(*timingEntry)`: a new iteration begins here
				if cur != nil {
					cur.complete = true
				}
				cur = &twIter{}
				its = append(its, cur)
			} else if t := entryOf(e.Addr); t != nil {
				start(t)
			}
		case px.EvBranch:
			cnd := e.Cond.Strip(true)
			if t := entryOf(cnd); t != nil {
				start(t)
			} else if cnd.Kind == px.KBinOp {
				if t := entryOf(cnd.X.Strip(true)); t != nil {
					start(t)
				}
			}
			if cur == nil {
				continue
			}
			switch {
			case isFld(cnd, "removed"):
				cur.removed = triOf(e.Taken)
			case cnd.Kind == px.KUnOp && cnd.Op == token.NOT && isFld(cnd.X, "removed"):
				cur.removed = triOf(!e.Taken)
			case cnd.Kind == px.KBinOp && isFld(cnd.X, "circle"):
				if z, ok := constInt(p, cnd.Y); ok && z == 0 {
					switch cnd.Op {
					case token.GTR, token.NEQ:
						cur.circlePos = triOf(e.Taken)
					case token.LEQ, token.EQL:
						cur.circlePos = triOf(!e.Taken)
					}
				}
			case cnd.Kind == px.KBinOp && isFld(cnd.X, "diff"):
				if z, ok := constInt(p, cnd.Y); ok && z == 0 {
					switch cnd.Op {
					case token.GTR, token.NEQ:
						cur.diffPos = triOf(e.Taken)
					case token.LEQ, token.EQL:
						cur.diffPos = triOf(!e.Taken)
					}
				}
			}
		case px.EvStore:
			if cur == nil {
				continue
			}
			if b, fname, ok := e.Addr.FieldAddrOf(); ok {
				if b == cur.task {
					switch fname {
					case "circle":
						v := e.Val.Strip(true)
						if v.Kind == px.KBinOp && v.Op == token.SUB && isFld(v.X, "circle") {
							if z, ok := constInt(p, v.Y); ok && z == 1 {
								cur.decCircle++
								continue
							}
						}
						cur.otherStores = append(cur.otherStores, "circle = "+e.Val.Describe())
					case "diff":
						if z, ok := constInt(p, e.Val); ok && z == 0 {
							cur.clearDiff++
							continue
						}
						cur.otherStores = append(cur.otherStores, "diff = "+e.Val.Describe())
					default:
						cur.otherStores = append(cur.otherStores, fname)
					}
				} else if namedStructOf(b.Typ) == "timingTask" && fname == "key" {
					if isFld(e.Val, "key") {
						cur.fire++
					} else {
						cur.otherStores = append(cur.otherStores, "fires another entry's key")
					}
				} else if namedStructOf(b.Typ) == "timingTask" && fname == "value" {
					if !isFld(e.Val, "value") {
						cur.otherStores = append(cur.otherStores, "fires another entry's value")
					}
				}
			}
		case px.EvCall:
			if cur == nil || e.Inlined {
				continue
			}
			switch shortName(e.Call) {
			case "container/list.(*List).Remove":
				cur.unlink++
			case "container/list.(*List).PushBack":
				cur.push = append(cur.push, e)
			case twPkg + ".(*TimingWheel).setTimerPosition":
				cur.setPos = append(cur.setPos, e)
			case twPkg + ".(*SafeMap).Del":
				if px.IsFieldLoad(e.Call.Args[0], "timers", nil) && isFld(e.Call.Args[1], "key") {
					cur.del++
				} else {
					cur.otherStores = append(cur.otherStores, "deletes another key")
				}
			case twPkg + ".(*TimingWheel).runTasks":
				cur.complete = true
			}
		case px.EvReturn:
			if cur != nil && e.Depth == 0 {
				cur.complete = true
			}
		}
	}
	return its
}

func c12scan(c *Ctx) {
	rule := "C12.R2"
	f := c.fn(rule, twPkg, "(*TimingWheel).scanAndRunTasks")
	if f == nil {
		return
	}
	ps := c.paths(rule, f, px.Config{MaxVisits: 2, MaxPaths: 50000})
	iters := 0
	kinds := map[string]int{}
	held := c.forall(rule, twPkg+".(*TimingWheel).scanAndRunTasks", "per scanned entry: removed ⇒ unlinked, not fired; circle>0 ⇒ only circle-1; diff>0 ⇒ unlinked, re-linked in slot (tickedPos+diff)%numSlots, position entry updated to that slot, diff cleared, not fired; otherwise fired exactly once with its own key/value, unlinked, key deleted from timers", f, ps, func(p *px.Path) (bool, string) {
		for _, it := range twIterations(c, p) {
			if !it.complete {
				continue
			}
			iters++
			if len(it.otherStores) > 0 {
				return false, fmt.Sprintf("unexpected mutation of the entry: %v", it.otherStores)
			}
			switch {
			case it.removed == 1:
				kinds["removed"]++
				if it.unlink != 1 || it.fire != 0 || it.del != 0 || it.decCircle+it.clearDiff != 0 || len(it.push) != 0 {
					return false, fmt.Sprintf("removed entry: unlink×%d fire×%d del×%d (a removed timer must be unlinked and never fired)", it.unlink, it.fire, it.del)
				}
			case it.removed == -1 && it.circlePos == 1:
				kinds["circle>0"]++
				if it.decCircle != 1 || it.unlink != 0 || it.fire != 0 || it.del != 0 || len(it.push) != 0 {
					return false, fmt.Sprintf("entry with remaining revolutions: circle-1×%d unlink×%d fire×%d (must only be decremented)", it.decCircle, it.unlink, it.fire)
				}
			case it.removed == -1 && it.circlePos == -1 && it.diffPos == 1:
				kinds["relocate"]++
				if it.unlink != 1 || len(it.push) != 1 || len(it.setPos) != 1 || it.clearDiff != 1 || it.fire != 0 || it.del != 0 {
					return false, fmt.Sprintf("lazy-moved entry: unlink×%d push×%d setTimerPosition×%d diff=0×%d fire×%d", it.unlink, len(it.push), len(it.setPos), it.clearDiff, it.fire)
				}
				pu, sp := it.push[0], it.setPos[0]
				if pu.Call.Args[1].Strip(false) != it.task || sp.Call.Args[2].Strip(false) != it.task {
					return false, "another entry is relocated"
				}
				pos := sp.Call.Args[1].Strip(true)
				// slot index of the push == pos
				slot := pu.Call.Args[0].Strip(false)
				if slot.Kind != px.KLoad || slot.X.Kind != px.KIndexAddr || slot.X.Y == nil || slot.X.Y.Strip(true) != pos || !px.IsFieldLoad(slot.X.X, "slots", nil) {
					return false, "the entry is re-linked in a slot other than the one recorded in its position entry"
				}
				// pos == (tickedPos + diff) % numSlots
				ok := pos.Kind == px.KBinOp && pos.Op == token.REM && px.IsFieldLoad(pos.Y, "numSlots", nil)
				if ok {
					s := pos.X.Strip(true)
					ok = s.Kind == px.KBinOp && s.Op == token.ADD &&
						((px.IsFieldLoad(s.X, "tickedPos", nil) && px.IsFieldLoad(s.Y, "diff", func(b *px.Sym) bool { return b == it.task })) ||
							(px.IsFieldLoad(s.Y, "tickedPos", nil) && px.IsFieldLoad(s.X, "diff", func(b *px.Sym) bool { return b == it.task })))
				}
				if !ok {
					return false, "relocation slot is not (tickedPos + diff) % numSlots: " + pos.Describe()
				}
			case it.removed == -1 && it.circlePos == -1 && it.diffPos == -1:
				kinds["fire"]++
				if it.fire != 1 || it.unlink != 1 || it.del != 1 || len(it.push) != 0 || it.decCircle+it.clearDiff != 0 {
					return false, fmt.Sprintf("due entry: fire×%d unlink×%d timers.Del×%d (must fire once, be unlinked and forgotten)", it.fire, it.unlink, it.del)
				}
			default:
				return false, fmt.Sprintf("entry handled without testing removed / circle / diff (removed=%d circle>0=%d diff>0=%d)", it.removed, it.circlePos, it.diffPos)
			}
		}
		if p.Exit == px.ExitReturn {
			rt := p.All(calleeIs(twPkg + ".(*TimingWheel).runTasks"))
			if len(rt) != 1 {
				return false, "the collected tasks are not handed to runTasks exactly once"
			}
		}
		return true, ""
	})
	c.R.Extra["C12.R2_iterations"] = iters
	c.R.Extra["C12.R2_iteration_kinds"] = kinds
	if held && len(kinds) < 4 {
		c.R.Undecided(rule, "scan iterations", "all four entry kinds occur on the enumerated paths", fmt.Sprintf("only %v", kinds))
	}
	// runTasks executes each collected task with its own key and value
	if f := c.fn(rule, twPkg, "(*TimingWheel).runTasks"); f != nil {
		ps := c.paths(rule, f, px.Config{MaxVisits: 2, InlineGo: true, Model: models(goSafeModel, stdModel)})
		executed := 0
		held := c.forall(rule, twPkg+".(*TimingWheel).runTasks", "every collected task is executed with its own key and value (same index), under RunSafe", f, ps, func(p *px.Path) (bool, string) {
			for _, e := range p.All(px.DynWhere(func(s *px.Sym) bool { return px.IsFieldLoad(s, "execute", nil) })) {
				a := e.Call.Args
				executed++
				if len(a) != 2 {
					return false, "execute arity"
				}
				kb, kok := fieldLoadBase(a[0], "key")
				vb, vok := fieldLoadBase(a[1], "value")
				if !kok || !vok {
					return false, "execute(key, value) arguments swapped or replaced"
				}
				if !sameElem(kb, vb) {
					return false, "key and value passed to execute come from different tasks"
				}
				if e.Via == nil || shortName(e.Via) != "core/threading.RunSafe" {
					return false, "execute is not run under RunSafe (a panicking callback would kill the remaining tasks)"
				}
			}
			return true, ""
		})
		if held && executed == 0 {
			c.R.Undecided(rule, twPkg+".(*TimingWheel).runTasks#reach", "the execute callback is reached on some analysed path", "no call of tw.execute was seen: the callback is invoked through a construct the analysis does not follow")
		}
	}
	c.R.Min(rule, 2, "scanAndRunTasks, runTasks")
}

func c12drain(c *Ctx) {
	rule := "C12.R3"
	f := c.fn(rule, twPkg, "(*TimingWheel).drainAll")
	if f == nil {
		return
	}
	ps := c.paths(rule, f, px.Config{MaxVisits: 2, MaxPaths: 50000})
	sched := calleeIs("core/threading.(*TaskRunner).Schedule")
	iters := 0
	held := c.forall(rule, twPkg+".(*TimingWheel).drainAll", "every element of every slot is unlinked; exactly the non-removed ones are delivered (once) and their keys forgotten, so a later SetTimer for the key starts a new timer", f, ps, func(p *px.Path) (bool, string) {
		its := twIterations(c, p)
		// attribute Schedule calls to iterations by order
		for idx, it := range its {
			if !it.complete && idx == len(its)-1 && p.Exit != px.ExitReturn {
				continue
			}
			iters++
			if it.unlink != 1 {
				return false, fmt.Sprintf("drained entry unlinked ×%d", it.unlink)
			}
			if it.removed == 0 {
				return false, "entry delivered without testing removed"
			}
			if it.del != 1 {
				return false, fmt.Sprintf("drained entry's key stays in timers (timers.Del×%d): a later SetTimer for that key updates a detached entry and never fires", it.del)
			}
		}
		// deliveries: one Schedule per non-removed entry
		want := 0
		for idx, it := range its {
			if !it.complete && idx == len(its)-1 && p.Exit != px.ExitReturn {
				continue
			}
			if it.removed == -1 {
				want++
			}
		}
		got := len(p.All(sched))
		if p.Exit == px.ExitReturn && got != want {
			return false, fmt.Sprintf("%d pending entries but %d deliveries scheduled", want, got)
		}
		return true, ""
	})
	c.R.Extra["C12.R3_iterations"] = iters
	if held && iters < 2 {
		c.R.Undecided(rule, "drain iterations", "the drain loop is recognised", fmt.Sprintf("%d iterations analysed", iters))
	}
	// the scheduled closure delivers the entry's own key and value
	cl := c.closure(rule, f, "delivery closure", func(a *ssa.Function) bool { return true })
	if cl != nil {
		cps := c.paths(rule, cl, px.Config{})
		c.forall(rule, twPkg+".(*TimingWheel).drainAll$deliver", "the delivery calls fn(task.key, task.value) of the drained entry once", cl, cps, func(p *px.Path) (bool, string) {
			d := p.All(func(e *px.Event) bool { return e.Kind == px.EvCall && e.Call.IsDyn() })
			if len(d) != 1 || len(d[0].Call.Args) != 2 {
				return false, "fn is not called exactly once"
			}
			kb, kok := fieldLoadBase(d[0].Call.Args[0], "key")
			vb, vok := fieldLoadBase(d[0].Call.Args[1], "value")
			if !kok || !vok || kb.Strip(false) != vb.Strip(false) {
				return false, "fn does not receive the entry's own key and value"
			}
			return true, ""
		})
	}
	c.R.Min(rule, 2, "drainAll, delivery closure")
}

// ---------------------------------------------------------------- set / remove / setTimerPosition / onTick

func c12setRemove(c *Ctx) {
	rule := "C12.R3b"
	if f := c.fn(rule, twPkg, "(*TimingWheel).removeTask"); f != nil {
		ps := c.paths(rule, f, px.Config{})
		c.forall(rule, twPkg+".(*TimingWheel).removeTask", "a known key: its current entry is marked removed and the key is deleted from timers; unknown key: nothing", f, ps, func(p *px.Path) (bool, string) {
			g := p.First(calleeIs(twPkg + ".(*SafeMap).Get"))
			if g == nil || !isParam(g.Call.Args[1], f.Params[1]) {
				return false, "timers.Get(key) not consulted"
			}
			found := findExtract(p, g.Res, 1)
			dels := p.All(calleeIs(twPkg + ".(*SafeMap).Del"))
			var marks []*px.Event
			for _, e := range p.All(px.KindIs(px.EvStore)) {
				if _, n, ok := e.Addr.FieldAddrOf(); ok && n == "removed" {
					marks = append(marks, e)
				}
			}
			switch p.Abs(found).K {
			case px.True:
				if len(marks) != 1 || p.Abs(marks[0].Val).K != px.True {
					return false, "the entry is not marked removed"
				}
				b, _, _ := marks[0].Addr.FieldAddrOf()
				if !px.IsFieldLoad(b, "item", nil) {
					return false, "removed is set on something other than the position entry's current item"
				}
				if len(dels) != 1 || !isParam(dels[0].Call.Args[1], f.Params[1]) || !px.IsFieldLoad(dels[0].Call.Args[0], "timers", nil) {
					return false, "the key is not deleted from timers"
				}
			case px.False:
				if len(marks)+len(dels) != 0 {
					return false, "an unknown key has effects"
				}
			default:
				return false, "lookup not tested"
			}
			return true, ""
		})
	}
	if f := c.fn(rule, twPkg, "(*TimingWheel).setTimerPosition"); f != nil {
		ps := c.paths(rule, f, px.Config{})
		posP, taskP := f.Params[1], f.Params[2]
		c.forall(rule, twPkg+".(*TimingWheel).setTimerPosition", "known key ⇒ the position entry's item and pos are both replaced by the given entry and slot; unknown ⇒ timers.Set(task.key, &positionEntry{pos, item: task})", f, ps, func(p *px.Path) (bool, string) {
			g := p.First(calleeIs(twPkg + ".(*SafeMap).Get"))
			if g == nil || !fieldLoadDeep(g.Call.Args[1], "key", func(b *px.Sym) bool { return isParam(b, taskP) }) {
				return false, "timers.Get(task.key) not consulted"
			}
			found := findExtract(p, g.Res, 1)
			var itemOK, posOK bool
			var base *px.Sym
			for _, e := range p.All(px.KindIs(px.EvStore)) {
				b, n, ok := e.Addr.FieldAddrOf()
				if !ok || namedStructOf(b.Typ) != "positionEntry" {
					continue
				}
				if base != nil && b != base {
					return false, "two position entries written"
				}
				base = b
				if n == "item" && isParam(e.Val, taskP) {
					itemOK = true
				}
				if n == "pos" && isParam(e.Val, posP) {
					posOK = true
				}
			}
			if !itemOK || !posOK {
				return false, "item and pos of the position entry are not both set from the arguments"
			}
			sets := p.All(calleeIs(twPkg + ".(*SafeMap).Set"))
			switch p.Abs(found).K {
			case px.True:
				if len(sets) != 0 || base.Strip(false).Kind != px.KTypeAssert {
					return false, "existing position entry not updated in place"
				}
			case px.False:
				if len(sets) != 1 || sets[0].Call.Args[2].Strip(false) != base || !fieldLoadDeep(sets[0].Call.Args[1], "key", func(b *px.Sym) bool { return isParam(b, taskP) }) {
					return false, "a new position entry is not registered under task.key"
				}
			default:
				return false, "lookup not tested"
			}
			return true, ""
		})
	}
	if f := c.fn(rule, twPkg, "(*TimingWheel).onTick"); f != nil {
		ps := c.paths(rule, f, px.Config{})
		c.forall(rule, twPkg+".(*TimingWheel).onTick", "the cursor advances by exactly one slot modulo numSlots and exactly the slot at the new cursor is scanned", f, ps, func(p *px.Path) (bool, string) {
			var st *px.Event
			for _, e := range p.All(px.KindIs(px.EvStore)) {
				if px.FieldAddrIs(e.Addr, "tickedPos", nil) {
					if st != nil {
						return false, "cursor written twice"
					}
					st = e
				}
			}
			if st == nil {
				return false, "cursor not advanced"
			}
			v := st.Val.Strip(true)
			ok := v.Kind == px.KBinOp && v.Op == token.REM && px.IsFieldLoad(v.Y, "numSlots", nil)
			if ok {
				s := v.X.Strip(true)
				one, isc := constInt(p, s.Y)
				ok = s.Kind == px.KBinOp && s.Op == token.ADD && px.IsFieldLoad(s.X, "tickedPos", nil) && isc && one == 1
			}
			if !ok {
				return false, "cursor is not (tickedPos + 1) % numSlots: " + v.Describe()
			}
			sc := p.All(calleeIs(twPkg + ".(*TimingWheel).scanAndRunTasks"))
			if len(sc) != 1 || sc[0].Seq < st.Seq {
				return false, "scan does not follow the cursor advance exactly once"
			}
			l := sc[0].Call.Args[1].Strip(false)
			if l.Kind != px.KLoad || l.X.Kind != px.KIndexAddr || l.X.Y == nil || !px.IsFieldLoad(l.X.X, "slots", nil) {
				return false, "scanned list is not a slot"
			}
			idx := l.X.Y.Strip(true)
			if idx != v && !(px.IsFieldLoad(idx, "tickedPos", nil)) {
				return false, "the scanned slot is not the one at the new cursor"
			}
			return true, ""
		})
	}
	if f := c.fn(rule, twPkg, "(*TimingWheel).setTask"); f != nil {
		ps := c.paths(rule, f, px.Config{})
		taskP := f.Params[1]
		gpc := calleeIs(twPkg + ".(*TimingWheel).getPositionAndCircle")
		c.forall(rule, twPkg+".(*TimingWheel).setTask", "delay below one interval is raised to one interval; known key ⇒ the pending entry's value is replaced and the timer moved by the (clamped) request; new key ⇒ circle stored, linked into the computed slot and registered at that slot", f, ps, func(p *px.Path) (bool, string) {
			// clamp
			for _, e := range p.All(px.KindIs(px.EvBranch)) {
				cnd := e.Cond.Strip(true)
				if cnd.Kind == px.KBinOp && cnd.Op == token.LSS && fieldLoadDeep(cnd.X, "delay", nil) && px.IsFieldLoad(cnd.Y, "interval", nil) && e.Taken {
					ok := false
					for _, s := range p.All(px.KindIs(px.EvStore)) {
						if s.Addr.Kind == px.KFieldAddr && s.Addr.FieldVar() != nil && s.Addr.FieldVar().Name() == "delay" && px.IsFieldLoad(s.Val, "interval", nil) && s.Seq > e.Seq {
							ok = true
						}
					}
					if !ok {
						return false, "a delay below one interval is not raised to one interval"
					}
				}
			}
			clampTested := false
			for _, e := range p.All(px.KindIs(px.EvBranch)) {
				cnd := e.Cond.Strip(true)
				if cnd.Kind == px.KBinOp && fieldLoadDeep(cnd.X, "delay", nil) && px.IsFieldLoad(cnd.Y, "interval", nil) {
					clampTested = true
				}
			}
			if !clampTested {
				return false, "delay is not compared with the interval"
			}
			g := p.First(calleeIs(twPkg + ".(*SafeMap).Get"))
			if g == nil {
				return false, "timers.Get not consulted"
			}
			found := findExtract(p, g.Res, 1)
			mv := p.All(calleeIs(twPkg + ".(*TimingWheel).moveTask"))
			switch p.Abs(found).K {
			case px.True:
				if len(mv) != 1 {
					return false, "existing timer is not moved exactly once"
				}
				ok := false
				for _, s := range p.All(px.KindIs(px.EvStore)) {
					if b, n, isf := s.Addr.FieldAddrOf(); isf && n == "value" && px.IsFieldLoad(b, "item", nil) && px.IsFieldLoad(s.Val, "value", func(b *px.Sym) bool { return isParam(b, taskP) }) && s.Seq < mv[0].Seq {
						ok = true
					}
				}
				if !ok {
					return false, "the pending entry does not receive the most recently set value before it is moved"
				}
				if p.Has(calleeIs("container/list.(*List).PushBack")) {
					return false, "existing key linked a second time"
				}
			case px.False:
				if len(mv) != 0 {
					return false, "unknown key moved"
				}
				gp := p.All(gpc)
				pb := p.All(calleeIs("container/list.(*List).PushBack"))
				sp := p.All(calleeIs(twPkg + ".(*TimingWheel).setTimerPosition"))
				if len(gp) != 1 || len(pb) != 1 || len(sp) != 1 {
					return false, "new timer: getPositionAndCircle/PushBack/setTimerPosition not each exactly once"
				}
				delayArg := gp[0].Call.Args[1]
				clamped := false
				for _, s := range p.All(px.KindIs(px.EvStore)) {
					if s.Addr.Kind == px.KFieldAddr && s.Addr.FieldVar() != nil && s.Addr.FieldVar().Name() == "delay" && s.Val.Strip(false) == delayArg.Strip(false) && s.Seq < gp[0].Seq {
						clamped = true
					}
				}
				if !clamped && !fieldLoadDeep(delayArg, "delay", func(b *px.Sym) bool { return isParam(b, taskP) }) {
					return false, "slot computed from something other than the task's delay"
				}
				pos, circle := findExtract(p, gp[0].Res, 0), findExtract(p, gp[0].Res, 1)
				okc := false
				for _, s := range p.All(px.KindIs(px.EvStore)) {
					if b, n, isf := s.Addr.FieldAddrOf(); isf && n == "circle" && isParam(b, taskP) && s.Val.Strip(false) == circle {
						okc = true
					}
				}
				if !okc {
					return false, "the computed circle is not stored in the new entry (a delay longer than one revolution fires early)"
				}
				slot := pb[0].Call.Args[0].Strip(false)
				if slot.Kind != px.KLoad || slot.X.Kind != px.KIndexAddr || slot.X.Y == nil || slot.X.Y.Strip(false) != pos || !isParam(pb[0].Call.Args[1], taskP) {
					return false, "the new entry is not linked into the computed slot"
				}
				if sp[0].Call.Args[1].Strip(false) != pos || !isParam(sp[0].Call.Args[2], taskP) {
					return false, "the position entry does not record the computed slot"
				}
			default:
				return false, "lookup not tested"
			}
			return true, ""
		})
	}
	c.R.Min(rule, 4, "removeTask, setTimerPosition, onTick, setTask")
}

// ---------------------------------------------------------------- R4 closed forms

func twLeaf(s *px.Sym) string {
	s = s.Strip(true)
	if s == nil {
		return ""
	}
	switch s.Kind {
	case px.KLoad:
		if s.X != nil && s.X.Kind == px.KFieldAddr {
			if v := s.X.FieldVar(); v != nil {
				return v.Name()
			}
		}
	case px.KParam:
		return s.V.Name()
	case px.KField:
		if v := s.FieldVar(); v != nil {
			return v.Name()
		}
	}
	return ""
}

func c12forms(c *Ctx) {
	rule := "C12.R4"
	f := c.fn(rule, twPkg, "(*TimingWheel).getPositionAndCircle")
	if f == nil {
		return
	}
	ps := c.paths(rule, f, px.Config{})
	c.forall(rule, twPkg+".(*TimingWheel).getPositionAndCircle", "steps = d/interval; pos = (tickedPos + steps) % numSlots; circle = (steps - 1) / numSlots (the closed forms named in the property)", f, ps, func(p *px.Path) (bool, string) {
		if p.Exit != px.ExitReturn || len(p.Results) != 2 {
			return false, "unexpected exit"
		}
		pos, circle := anf(p, p.Results[0], twLeaf).String(), anf(p, p.Results[1], twLeaf).String()
		wantPos := "1·(1·(1·d)/(1·interval) + 1·tickedPos)%(1·numSlots)"
		wantCircle := "1·(-1 + 1·(1·d)/(1·interval))/(1·numSlots)"
		if pos != wantPos {
			return false, "pos has normal form " + pos + ", expected " + wantPos
		}
		if circle != wantCircle {
			return false, "circle has normal form " + circle + ", expected " + wantCircle
		}
		return true, ""
	})
	c.R.Min(rule, 1, "getPositionAndCircle")
}

// ---------------------------------------------------------------- R5/R6 moveTask

// stripConv removes conversions and boxing.
func stripConv(s *px.Sym) *px.Sym { return s.Strip(true) }

func c12move(c *Ctx) {
	rule := "C12.R6"
	f := c.fn(rule, twPkg, "(*TimingWheel).moveTask")
	if f == nil {
		return
	}
	ps := c.paths(rule, f, px.Config{Inline: inlineNamed("getPositionAndCircle")})
	lazy, reinserts := 0, 0
	held := c.forall(rule, twPkg+".(*TimingWheel).moveTask", "unknown key ⇒ no effect; lazy move ⇒ circle and diff of the pending entry are quotient and remainder by numSlots of ONE quantity X that depends on the requested delay, the entry's holding slot and the cursor, on a branch that implies X >= 0; otherwise the old entry is marked removed and a new entry (same key/delay, current value) is linked into and registered at the slot computed for the delay", f, ps, func(p *px.Path) (bool, string) {
		g := p.First(calleeIs(twPkg + ".(*SafeMap).Get"))
		if g == nil {
			return false, "timers.Get not consulted"
		}
		found := findExtract(p, g.Res, 1)
		var circleSt, diffSt, removedSt *px.Event
		for _, e := range p.All(px.KindIs(px.EvStore)) {
			b, n, ok := e.Addr.FieldAddrOf()
			if !ok || !px.IsFieldLoad(b, "item", nil) {
				continue
			}
			switch n {
			case "circle":
				circleSt = e
			case "diff":
				diffSt = e
			case "removed":
				removedSt = e
			}
		}
		if p.Abs(found).K == px.False {
			if circleSt != nil || diffSt != nil || removedSt != nil || p.Has(calleeIs("container/list.(*List).PushBack")) {
				return false, "an unknown key has effects"
			}
			return true, ""
		}
		if p.Has(calleeIs("core/threading.GoSafe")) {
			// delay below one interval: running the task now is outside the property's domain (d >= interval) — but the
			// wheel's bookkeeping must stay consistent for the in-domain operations that follow: an entry marked removed
			// here must also lose its key, otherwise a later SetTimer for the key "moves" the dead entry and never fires
			if circleSt != nil || diffSt != nil {
				return false, "the run-now branch rewrites circle/diff of the pending entry"
			}
			if removedSt != nil && !p.Has(calleeIs(twPkg+".(*SafeMap).Del")) {
				return false, "the run-now branch marks the pending entry removed but leaves its key in timers: the index points at a dead entry, and a later SetTimer for the key only updates that entry — the new value never fires"
			}
			return true, ""
		}
		if circleSt != nil || diffSt != nil {
			lazy++
			if circleSt == nil || diffSt == nil {
				return false, "a lazy move stores only one of circle / diff (the other keeps a stale value from an earlier move)"
			}
			if removedSt != nil {
				return false, "entry both lazily moved and marked removed"
			}
			cs, ds := stripConv(circleSt.Val), stripConv(diffSt.Val)
			if cs.Kind != px.KBinOp || cs.Op != token.QUO || twLeaf(cs.Y) != "numSlots" {
				return false, "circle is not a quotient by numSlots: " + cs.Describe()
			}
			X := anf(p, cs.X, twLeaf)
			okDiff := false
			if ds.Kind == px.KBinOp && ds.Op == token.REM && twLeaf(ds.Y) == "numSlots" && polyEq(anf(p, ds.X, twLeaf), X) {
				okDiff = true
			}
			if !okDiff {
				// X - (X/numSlots)*numSlots
				want := polyAdd(X, polyMul(anf(p, cs, twLeaf), Poly{"numSlots": ratOne()}), -1)
				if polyEq(anf(p, ds, twLeaf), want) {
					okDiff = true
				}
			}
			if !okDiff {
				return false, fmt.Sprintf("circle is (%s)/numSlots but diff is not the remainder of the same quantity: diff = %s — the remaining revolutions and the in-revolution offset are computed from different quantities, so some timers fire a revolution early or late", X, anf(p, ds, twLeaf))
			}
			xs := X.String()
			for _, leaf := range []string{"delay", "interval", "pos", "tickedPos"} {
				if !strings.Contains(xs, leaf) {
					return false, fmt.Sprintf("the moved quantity %s does not depend on %q: the ticks until the holding slot is scanned again depend on both the slot and the cursor", xs, leaf)
				}
			}
			// guard X >= 0
			guard := false
			for _, e := range p.All(px.KindIs(px.EvBranch)) {
				cnd := e.Cond.Strip(true)
				if cnd.Kind != px.KBinOp {
					continue
				}
				op := cnd.Op
				a, b := cnd.X, cnd.Y
				if !e.Taken {
					switch op {
					case token.LSS:
						op = token.GEQ
					case token.LEQ:
						op = token.GTR
					case token.GTR:
						op = token.LEQ
					case token.GEQ:
						op = token.LSS
					default:
						continue
					}
				}
				if op == token.LEQ || op == token.LSS {
					a, b = b, a
					if op == token.LEQ {
						op = token.GEQ
					} else {
						op = token.GTR
					}
				}
				if op != token.GEQ && op != token.GTR {
					continue
				}
				if polyEq(polyAdd(anf(p, a, twLeaf), anf(p, b, twLeaf), -1), X) {
					guard = true
				}
			}
			if !guard {
				return false, "the lazy move is not guarded by a comparison implying that the moved quantity " + xs + " is non-negative"
			}
			return true, ""
		}
		// re-insertion
		reinserts++
		if removedSt == nil || p.Abs(removedSt.Val).K != px.True {
			return false, "neither lazily moved nor re-inserted (the old entry is not marked removed)"
		}
		pb := p.All(calleeIs("container/list.(*List).PushBack"))
		sp := p.All(calleeIs(twPkg + ".(*TimingWheel).setTimerPosition"))
		if len(pb) != 1 || len(sp) != 1 {
			return false, "re-insertion does not link and register the new entry exactly once"
		}
		ni := pb[0].Call.Args[1].Strip(false)
		if ni.Kind != px.KAlloc || sp[0].Call.Args[2].Strip(false) != ni {
			return false, "the linked and the registered entries differ"
		}
		var baseOK, valOK bool
		for _, e := range p.All(px.KindIs(px.EvStore)) {
			if e.Addr.Kind == px.KFieldAddr && e.Addr.X == ni {
				switch e.Addr.FieldVar().Name() {
				case "baseEntry":
					baseOK = isParam(e.Val, f.Params[1]) || (e.Val.Strip(false).Kind == px.KLoad)
				case "value":
					valOK = px.IsFieldLoad(e.Val, "value", func(b *px.Sym) bool { return px.IsFieldLoad(b, "item", nil) })
				}
			}
		}
		if v := p.CellValue(ni); v != nil {
			return false, "the re-inserted entry is a copy of the old one: it inherits the circle/diff/removed left by earlier moves and fires at the wrong tick"
		}
		if !baseOK || !valOK {
			return false, "the new entry does not carry the request's key/delay and the pending entry's current value"
		}
		for _, e := range p.All(px.KindIs(px.EvStore)) {
			if e.Addr.Kind == px.KFieldAddr && e.Addr.X == ni && nameIn(e.Addr.FieldVar().Name(), []string{"circle", "diff", "removed"}) {
				if z, ok := constInt(p, e.Val); !(ok && z == 0) && p.Abs(e.Val).K != px.False {
					// a non-zero circle must be the one computed for the request
					if e.Addr.FieldVar().Name() != "circle" {
						return false, "the re-inserted entry starts with a non-zero " + e.Addr.FieldVar().Name()
					}
				}
			}
		}
		pos := stripConv(sp[0].Call.Args[1])
		slot := pb[0].Call.Args[0].Strip(false)
		if slot.Kind != px.KLoad || slot.X.Kind != px.KIndexAddr || slot.X.Y == nil || stripConv(slot.X.Y) != pos {
			return false, "linked slot and registered slot differ"
		}
		if got := anf(p, pos, twLeaf).String(); got != "1·(1·(1·delay)/(1·interval) + 1·tickedPos)%(1·numSlots)" {
			return false, "re-insertion slot is not (tickedPos + delay/interval) % numSlots: " + got
		}
		return true, ""
	})
	c.R.Extra["C12.R6_lazy_paths"] = lazy
	c.R.Extra["C12.R6_reinsert_paths"] = reinserts
	if held && (lazy < 1 || reinserts < 1) {
		c.R.Undecided(rule, "moveTask shapes", "both the lazy and the re-insertion path exist", fmt.Sprintf("lazy=%d reinsert=%d", lazy, reinserts))
	}
	c.R.Min(rule, 1, "moveTask")
}
