package rules

import (
	"fmt"
	"go/types"
	"path/filepath"
	"sort"
	"strings"

	"golang.org/x/tools/go/ssa"

	"gzverify/load"
	"gzverify/px"
	"gzverify/rep"
)

// C20 — goctl API formatter (separate module tools/goctl, loaded with the alternate modfile).
func init() {
	register("C20", "other", c20)
	props["C20"].loadWith = func(env []string, overlay map[string][]byte) (*load.Prog, error) {
		mf := filepath.Join(rep.VerifDir(), "standins", "goctl.alt.mod")
		return load.Load(load.Options{Dir: filepath.Join(load.RepoDir(), "tools", "goctl"), Patterns: []string{"./pkg/parser/api/..."}, Flags: []string{"-modfile=" + mf}, Env: env, Overlay: overlay})
	}
}

const (
	goctlAst    = "tools/goctl/pkg/parser/api/ast"
	goctlParser = "tools/goctl/pkg/parser/api/parser"
	goctlFormat = "tools/goctl/pkg/parser/api/format"
	goctlScan   = "tools/goctl/pkg/parser/api/scanner"
)

func c20(c *Ctx) {
	c.R.RuleText = "path-sensitive child coverage of every ast node's Format method (each present child token/node must be handed to the writer as a node), crash reachability over the call graph from the formatter's entry points, nil-means-failure discipline of the parser's list/node constructors"
	c.R.Explain = "Structural necessary conditions of C20: on every path of every ast node's Format that produces text, each child field (token node, nested node, or list of them) that is present on that path is handed as a node to the writer / a nested Format — a child that is never written cannot be in the output (so the formatted text would parse to a different description), and a token printed from its bare text loses its attached comments; no path from format.Source / Parser.Parse / Scanner.NextToken reaches log.Fatal*, os.Exit or an unrecovered panic (errors, not crashes); every parser constructor whose callers read nil as failure returns nil only after a failure was observed on that path (so well-formed input is never silently turned into a nil AST). NOT decided: idempotence and parse-equivalence as relations over all programs; comment placement."
	c.R.Assume = append(c.R.Assume, "the writer emits every node it is given", "tools/goctl is type-checked against stand-ins for gookit/color and fatih/structtag (never analysed)")
	c20coverage(c)
	c20crash(c)
	c20nil(c)
	c20fields(c)
}

// nodeish: *TokenNode, a type with a Format method from package ast, an interface of package ast, or a slice of those.
func c20nodeish(t types.Type, astPkg *types.Package) bool {
	switch tt := t.(type) {
	case *types.Slice:
		return c20nodeish(tt.Elem(), astPkg)
	case *types.Pointer:
		return c20nodeish(tt.Elem(), astPkg)
	case *types.Named:
		if tt.Obj().Pkg() != astPkg {
			return false
		}
		if types.IsInterface(tt) {
			return true
		}
		if _, ok := tt.Underlying().(*types.Struct); !ok {
			return false
		}
		ms := types.NewMethodSet(types.NewPointer(tt))
		return ms.Lookup(astPkg, "Format") != nil
	}
	return false
}

func c20coverage(c *Ctx) {
	rule := "C20.R1"
	pk := c.P.Pkg(goctlAst)
	sp := c.P.SSAPkg(goctlAst)
	if pk == nil || sp == nil {
		c.R.Undecided(rule, goctlAst, "anchor resolves", "package not loaded")
		return
	}
	// exemptions: (type.field) → reason; each a single named symbol
	exempt := map[string]string{}
	// presence of a child implied by a sibling (set together by the parser): evaluated with the sibling's nil-ness
	pairedWith := map[string]string{
		"BodyExpr.RBrack":   "LBrack",   // `[` and `]` come together
		"RouteStmt.Returns": "Response", // the `returns` keyword exists iff a response body statement does
	}
	// a child that is semantically empty when one of its own fields is nil: `returns ()`
	emptyWhenNil := map[string]string{
		"RouteStmt.Response": "Body",
		"RouteStmt.Returns":  "Response.Body",
	}
	n := 0
	names := pk.Types.Scope().Names()
	sort.Strings(names)
	for _, name := range names {
		tn, ok := pk.Types.Scope().Lookup(name).(*types.TypeName)
		if !ok {
			continue
		}
		named, ok := tn.Type().(*types.Named)
		if !ok {
			continue
		}
		st, ok := named.Underlying().(*types.Struct)
		if !ok {
			continue
		}
		var fm *ssa.Function
		for i := 0; i < named.NumMethods(); i++ {
			if named.Method(i).Name() == "Format" {
				fm = c.P.SSA.FuncValue(named.Method(i))
			}
		}
		if fm == nil || fm.Blocks == nil {
			continue
		}
		var children []string
		for i := 0; i < st.NumFields(); i++ {
			if c20nodeish(st.Field(i).Type(), pk.Types) {
				children = append(children, st.Field(i).Name())
			}
		}
		if len(children) == 0 || name == "TokenNode" || name == "AST" {
			continue
		}
		n++
		recv := fm.Params[0]
		ps := c.paths(rule, fm, px.Config{MaxVisits: 2, MaxPaths: 100000})
		c.forall(rule, goctlAst+"."+name+".Format", fmt.Sprintf("on every path that produces text, each present child of %v is handed to the writer / a nested Format as a node", children), fm, ps, func(p *px.Path) (bool, string) {
			if p.Exit != px.ExitReturn || len(p.Results) != 1 {
				return true, ""
			}
			if a := p.Abs(p.Results[0]); a.K == px.ConstV {
				return true, "" // constant (empty) text
			}
			// syms handed to calls on this path
			handed := map[*px.Sym]bool{}
			var mark func(s *px.Sym, d int)
			mark = func(s *px.Sym, d int) {
				if s == nil || d > 6 {
					return
				}
				s = s.Strip(false)
				if handed[s] {
					return
				}
				handed[s] = true
				for _, el := range p.SliceElems(s) {
					mark(el, d+1)
				}
				if s.Kind == px.KCall && s.Call != nil {
					for _, a := range s.Call.Args {
						mark(a, d+1)
					}
				}
			}
			for i := range p.Events {
				e := &p.Events[i]
				if e.Kind != px.EvCall || e.Call.Builtin == "len" {
					continue
				}
				if e.Call.Builtin != "" && e.Call.Builtin != "append" {
					continue
				}
				for _, a := range e.Call.Args {
					mark(a, 0)
				}
				if e.Call.Recv != nil {
					mark(e.Call.Recv, 0)
				}
			}
			// values ranged over (slices of children)
			ranged := map[*px.Sym]bool{}
			for i := range p.Events {
				e := &p.Events[i]
				if e.Kind == px.EvLoad || e.Kind == px.EvBranch {
					continue
				}
			}
			for s := range handed {
				_ = s
			}
			for _, fld := range children {
				key := name + "." + fld
				if _, ok := exempt[key]; ok {
					continue
				}
				// nil-ness of the field on this path
				loadsOf := func(f string) []*px.Sym {
					var out []*px.Sym
					for i := range p.Events {
						e := &p.Events[i]
						if e.Kind == px.EvLoad && px.FieldAddrIs(e.Addr, f, func(b *px.Sym) bool { return isParam(b, recv) }) {
							out = append(out, e.Val)
						}
					}
					return out
				}
				absent := func(ls []*px.Sym) bool {
					for _, l := range ls {
						if p.Abs(l).K == px.Nil {
							return true
						}
					}
					firstLenTest := true
					for _, b := range p.All(px.KindIs(px.EvBranch)) {
						cnd := b.Cond.Strip(true)
						if cnd.Kind == px.KCall && cnd.Call != nil && len(cnd.Call.Args) == 1 {
							for _, l := range ls {
								if cnd.Call.Args[0].Strip(false) == l.Strip(false) && strings.Contains(strings.ToLower(cnd.Call.Name()), "nil") && b.Taken {
									return true
								}
							}
						}
						isLenOfField := func(x *px.Sym) bool {
							return isLenOf(x, func(y *px.Sym) bool {
								for _, l := range ls {
									if y.Strip(false) == l.Strip(false) {
										return true
									}
								}
								return false
							})
						}
						if cnd.Kind == px.KBinOp && isLenOfField(cnd.X) {
							if z, ok := constInt(p, cnd.Y); ok && z == 0 && ordHolds(cnd.Op, 0) == b.Taken && ordHolds(cnd.Op, 1) != b.Taken {
								return true // len(list) == 0
							}
						}
						// range loop header `idx < len(list)` false on its first evaluation: empty list
						if cnd.Kind == px.KBinOp && cnd.Op.String() == "<" && isLenOfField(cnd.Y) {
							if firstLenTest && !b.Taken {
								return true
							}
							firstLenTest = false
						}
					}
					return false
				}
				loads := loadsOf(fld)
				isNil := absent(loads)
				if sib, ok := pairedWith[key]; ok && absent(loadsOf(sib)) {
					isNil = true
				}
				if inner, ok := emptyWhenNil[key]; ok {
					parts := strings.Split(inner, ".")
					base := loads
					fieldName := parts[0]
					if len(parts) == 2 {
						base = loadsOf(parts[0])
						fieldName = parts[1]
					}
					for _, b := range p.All(px.KindIs(px.EvBranch)) {
						cnd := b.Cond.Strip(true)
						if cnd.Kind == px.KBinOp && px.IsNilConst(cnd.Y) && px.IsFieldLoad(cnd.X, fieldName, func(bb *px.Sym) bool {
							for _, l := range base {
								if bb.Strip(false) == l.Strip(false) {
									return true
								}
							}
							return false
						}) && (cnd.Op.String() == "==") == b.Taken {
							isNil = true
						}
					}
				}
				if isNil {
					continue
				}
				ok := false
				for _, l := range loads {
					if handed[l.Strip(false)] {
						ok = true
					}
					// ranged over: some KRange sym has X == l
					for s := range handed {
						// element of the slice handed to a call: s derives from l by range/index
						x := s
						viaField := false
						for d := 0; d < 6 && x != nil; d++ {
							if x == l.Strip(false) {
								// through a field of the child only when what is handed is itself a node (e.g. Path.Value)
								if !viaField || (s.Typ != nil && c20nodeish(s.Typ, pk.Types)) {
									ok = true
								}
								break
							}
							switch x.Kind {
							case px.KExtract, px.KNext, px.KRange, px.KLoad, px.KIndexAddr, px.KSlice, px.KTypeAssert, px.KMkIface, px.KChangeType:
								x = x.X
							case px.KFieldAddr:
								viaField = true
								x = x.X
							default:
								x = nil
							}
						}
					}
				}
				_ = ranged
				if !ok {
					if len(loads) == 0 {
						return false, fmt.Sprintf("child %s is never read on a path that produces text: it cannot appear in the formatted output", fld)
					}
					return false, fmt.Sprintf("child %s is present on this path but is not handed to the writer as a node (only inspected, or printed from its bare token text): the token — or the comments attached to it — is missing from the output", fld)
				}
			}
			return true, ""
		})
	}
	c.R.Extra["C20.R1_format_methods"] = n
	c.R.Min(rule, 25, "ast node types with a Format method and node-typed children")
}

// c20crash: no path to a process-terminating call from the formatter's entry points.
func c20crash(c *Ctx) {
	rule := "C20.R2"
	entries := []struct{ pkg, fn string }{{goctlFormat, "Source"}, {goctlParser, "(*Parser).Parse"}, {goctlScan, "(*Scanner).NextToken"}, {goctlParser, "New"}}
	// module-internal static call graph + interface calls resolved by CHA over the loaded packages
	fns := map[*ssa.Function]bool{}
	for _, pk := range c.P.Pkgs {
		for _, f := range c.P.AllFuncs(strings.TrimPrefix(pk.PkgPath, mod)) {
			fns[f] = true
		}
	}
	impls := func(m *types.Func) []*ssa.Function {
		var out []*ssa.Function
		for f := range fns {
			if f.Signature.Recv() == nil || f.Name() != m.Name() {
				continue
			}
			if it, ok := m.Type().(*types.Signature).Recv().Type().Underlying().(*types.Interface); ok {
				if types.Implements(f.Signature.Recv().Type(), it) {
					out = append(out, f)
				}
			}
		}
		return out
	}
	type edge struct {
		to  *ssa.Function
		pos string
	}
	fatal := func(cc *ssa.CallCommon) string {
		n := calleeName(cc)
		switch {
		case strings.HasPrefix(n, "log.Fatal"), n == "os.Exit", strings.HasPrefix(n, "(*log.Logger).Fatal"):
			return n
		}
		return ""
	}
	succ := func(f *ssa.Function) (es []edge, fatals []string) {
		var visit func(g *ssa.Function)
		visit = func(g *ssa.Function) {
			for _, b := range g.Blocks {
				for _, ins := range b.Instrs {
					if pn, ok := ins.(*ssa.Panic); ok {
						if !hasRecoverDefer(g) {
							fatals = append(fatals, "panic at "+c.P.Pos(pn.Pos()))
						}
					}
					ci, ok := ins.(ssa.CallInstruction)
					if !ok {
						continue
					}
					cc := ci.Common()
					if n := fatal(cc); n != "" {
						fatals = append(fatals, n+" at "+c.P.Pos(ins.Pos()))
						continue
					}
					if cc.IsInvoke() {
						for _, t := range impls(cc.Method) {
							es = append(es, edge{t, c.P.Pos(ins.Pos())})
						}
						continue
					}
					if t := cc.StaticCallee(); t != nil && fns[t] {
						es = append(es, edge{t, c.P.Pos(ins.Pos())})
					}
				}
			}
			for _, a := range g.AnonFuncs {
				visit(a)
			}
		}
		visit(f)
		return
	}
	for _, en := range entries {
		root := c.fn(rule, en.pkg, en.fn)
		if root == nil {
			continue
		}
		// BFS with parent pointers
		parent := map[*ssa.Function]*ssa.Function{root: nil}
		queue := []*ssa.Function{root}
		type finding struct {
			fn   *ssa.Function
			what string
		}
		var found []finding
		for len(queue) > 0 {
			f := queue[0]
			queue = queue[1:]
			es, fs := succ(f)
			for _, w := range fs {
				found = append(found, finding{f, w})
			}
			for _, e := range es {
				if _, seen := parent[e.to]; !seen {
					parent[e.to] = f
					queue = append(queue, e.to)
				}
			}
		}
		byFn := map[string][]string{}
		for _, fd := range found {
			var chain []string
			for g := fd.fn; g != nil; g = parent[g] {
				chain = append([]string{strings.TrimPrefix(strings.Replace(g.String(), mod, "", -1), "tools/goctl/pkg/parser/api/")}, chain...)
			}
			k := strings.TrimPrefix(strings.Replace(fd.fn.String(), mod, "", -1), "tools/goctl/pkg/parser/api/")
			if why, ok := crashExempt[k]; ok {
				c.R.Extra["C20.R2_exempt:"+k] = why
				continue
			}
			byFn[k] = append(byFn[k], fd.what+" via "+strings.Join(chain, " → "))
		}
		entry := strings.TrimPrefix(en.pkg, "tools/goctl/pkg/parser/api/") + "." + en.fn
		if len(byFn) == 0 {
			o := c.R.Hold(rule, entry, "no process-terminating call (log.Fatal*, os.Exit, unrecovered panic) is reachable: malformed input is reported as an error", len(parent))
			o.Sites = len(parent)
			continue
		}
		var ks []string
		for k := range byFn {
			ks = append(ks, k)
		}
		sort.Strings(ks)
		for _, k := range ks {
			o := c.R.Fail(rule, entry+"→"+k, "no process-terminating call (log.Fatal*, os.Exit, unrecovered panic) is reachable from this entry point: malformed input is reported as an error, never by killing the process", "-",
				strings.Join(byFn[k], "; "), byFn[k])
			o.Paths = len(parent)
		}
	}
	c.R.Min(rule, 4, "format.Source, Parser.Parse, Scanner.NextToken, parser.New")
}

// crashExempt: process-terminating sites that no input can reach (one named symbol each, with the reason).
var crashExempt = map[string]string{
	"parser.New": "log.Fatalln after filepath.Abs(filename) failed: Abs fails only when the process has no working directory, never because of the source text",
}

func hasRecoverDefer(f *ssa.Function) bool {
	for g := f; g != nil; g = g.Parent() {
		for _, b := range g.Blocks {
			for _, ins := range b.Instrs {
				if d, ok := ins.(*ssa.Defer); ok {
					if mc, ok := d.Call.Value.(*ssa.MakeClosure); ok {
						if callsInBody(mc.Fn.(*ssa.Function), func(cc *ssa.CallCommon) bool {
							bi, ok := cc.Value.(*ssa.Builtin)
							return ok && bi.Name() == "recover"
						}) {
							return true
						}
					}
				}
			}
		}
	}
	return false
}

// c20nil: parser constructors return nil only after a failure was observed.
func c20nil(c *Ctx) {
	rule := "C20.R4"
	sp := c.P.SSAPkg(goctlParser)
	if sp == nil {
		c.R.Undecided(rule, goctlParser, "anchor resolves", "package not loaded")
		return
	}
	n := 0
	var fnsL []*ssa.Function
	for _, f := range c.P.AllFuncs(goctlParser) {
		if f.Parent() != nil || recvName(f) != "Parser" || !strings.HasPrefix(f.Name(), "parse") {
			continue
		}
		res := f.Signature.Results()
		if res.Len() != 1 {
			continue
		}
		switch res.At(0).Type().Underlying().(type) {
		case *types.Slice, *types.Pointer, *types.Interface:
			fnsL = append(fnsL, f)
		}
	}
	for _, f := range fnsL {
		n++
		ps := c.paths(rule, f, px.Config{MaxVisits: 2, MaxPaths: 200000})
		name := goctlParser + ".(*Parser)." + f.Name()
		c.forall(rule, name, "nil means 'parsing failed' to every caller: besides explicit `return nil` failures, a result variable is returned only when it is non-nil on that path (an empty list is an allocated empty list)", f, ps, func(p *px.Path) (bool, string) {
			if p.Exit != px.ExitReturn {
				return true, ""
			}
			// the value returned: a literal `return nil` is an explicit failure; a VARIABLE returned on a
			// success path must not be nil on that path
			ret := p.Last(func(e *px.Event) bool { return e.Kind == px.EvReturn && e.Depth == 0 })
			if ret == nil {
				return true, ""
			}
			ri, ok := ret.Instr.(*ssa.Return)
			if !ok || len(ri.Results) != 1 {
				return true, ""
			}
			if _, lit := ri.Results[0].(*ssa.Const); lit {
				return true, ""
			}
			r := p.Results[0]
			if px.IsNilConst(r) || isZeroSym(r) || p.Abs(r).K == px.Nil {
				return false, "a result variable that is still nil is returned on a success path (e.g. a list declared with `var` and never appended to for an empty group): every caller reads nil as 'parsing failed', so well-formed input makes Parse() return a nil AST with no error recorded — and the formatter dereferences it"
			}
			return true, ""
		})
	}
	c.R.Extra["C20.R4_parse_functions"] = n
	c.R.Min(rule, 20, "parse* methods of *Parser returning a node or a list")
}

// c20fields: every child field of an ast node that Format can print is filled somewhere by the parser.
func c20fields(c *Ctx) {
	rule := "C20.R3"
	pk := c.P.Pkg(goctlAst)
	if pk == nil {
		return
	}
	assigned := map[string]int{}
	for _, f := range c.P.AllFuncs(goctlParser) {
		for _, b := range f.Blocks {
			for _, ins := range b.Instrs {
				if st, ok := ins.(*ssa.Store); ok {
					if fa, ok := st.Addr.(*ssa.FieldAddr); ok {
						if cst, isC := st.Val.(*ssa.Const); isC && cst.Value == nil {
							continue // explicit nil
						}
						assigned[namedStructOf(fa.X.Type())+"."+fieldNameOf(fa)]++
					}
				}
			}
		}
	}
	names := pk.Types.Scope().Names()
	sort.Strings(names)
	var missing []string
	total := 0
	// fields the parser legitimately never sets (none known today); each would need a reason here
	exempt := map[string]string{}
	for _, name := range names {
		tn, ok := pk.Types.Scope().Lookup(name).(*types.TypeName)
		if !ok {
			continue
		}
		named, ok := tn.Type().(*types.Named)
		if !ok {
			continue
		}
		st, ok := named.Underlying().(*types.Struct)
		if !ok || name == "TokenNode" || name == "AST" {
			continue
		}
		hasFormat := false
		for i := 0; i < named.NumMethods(); i++ {
			if named.Method(i).Name() == "Format" {
				hasFormat = true
			}
		}
		if !hasFormat {
			continue
		}
		for i := 0; i < st.NumFields(); i++ {
			if !c20nodeish(st.Field(i).Type(), pk.Types) {
				continue
			}
			key := name + "." + st.Field(i).Name()
			total++
			if assigned[key] == 0 {
				if _, ok := exempt[key]; !ok {
					missing = append(missing, key)
				}
			}
		}
	}
	o := c.R.Check(len(missing) == 0 && total >= 60, rule, goctlParser+"⇄"+goctlAst, "every child field an ast node's Format can print is assigned by the parser somewhere (a field the parser stops filling silently disappears from the formatted text)", "-",
		fmt.Sprintf("never assigned in package parser: %v (%d child fields in total)", missing, total), missing, total)
	o.Sites = total
}
