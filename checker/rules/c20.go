package rules

import (
	"fmt"
	"go/constant"
	"go/token"
	"go/types"
	"path/filepath"
	"sort"
	"strings"

	"golang.org/x/tools/go/ssa"

	"gzverify/load"
	"gzverify/px"
	"gzverify/rep"
)

// C20 — goctl API formatter (separate module tools/goctl, loaded with the alternate modfile).
func init() {
	register("C20", "other", c20)
	props["C20"].loadWith = func(env []string, overlay map[string][]byte) (*load.Prog, error) {
		mf := filepath.Join(rep.VerifDir(), "standins", "goctl.alt.mod")
		return load.Load(load.Options{Dir: filepath.Join(load.RepoDir(), "tools", "goctl"), Patterns: []string{"./pkg/parser/api/..."}, Flags: []string{"-modfile=" + mf}, Env: env, Overlay: overlay})
	}
}

const (
	goctlAst    = "tools/goctl/pkg/parser/api/ast"
	goctlParser = "tools/goctl/pkg/parser/api/parser"
	goctlFormat = "tools/goctl/pkg/parser/api/format"
	goctlScan   = "tools/goctl/pkg/parser/api/scanner"
)

func c20(c *Ctx) {
	c.R.RuleText = "path-sensitive child coverage of every ast node's Format method (each present child token/node must be handed to the writer as a node), crash reachability over the call graph from the formatter's entry points, nil-means-failure discipline of the parser's list/node constructors"
	c.R.Explain = "Structural necessary conditions of C20: on every path of every ast node's Format that produces text, each child field (token node, nested node, or list of them) that is present on that path is handed as a node to the writer / a nested Format — a child that is never written cannot be in the output (so the formatted text would parse to a different description), and a token printed from its bare text loses its attached comments; no path from format.Source / Parser.Parse / Scanner.NextToken reaches log.Fatal*, os.Exit or an unrecovered panic (errors, not crashes); every parser constructor whose callers read nil as failure returns nil only after a failure was observed on that path (so well-formed input is never silently turned into a nil AST). NOT decided: idempotence and parse-equivalence as relations over all programs; comment placement."
	c.R.Assume = append(c.R.Assume, "the writer emits every node it is given", "tools/goctl is type-checked against stand-ins for gookit/color and fatih/structtag (never analysed)")
	c20coverage(c)
	c20crash(c)
	c20nil(c)
	c20fields(c)
	c20scanString(c)
	c20fullLists(c)
	c20tokens(c)
	c20index(c)
	c20concat(c)
	c20scanBounds(c)
	c20formats(c)
	c20errorsRecorded(c)
	c20verbatim(c)
	c20zero(c)
	c20requiredChildren(c)
	c20blockComment(c)
	c20positions(c)
	c20scannerErrors(c)
	c20commentReject(c)
	c20writtenListDecides(c)
	c20emptyChildLines(c)
	c20closingTokenOwnLine(c)
	c20noCrossLineRewrites(c)
}

// nodeish: *TokenNode, a type with a Format method from package ast, an interface of package ast, or a slice of those.
func c20nodeish(t types.Type, astPkg *types.Package) bool {
	switch tt := t.(type) {
	case *types.Slice:
		return c20nodeish(tt.Elem(), astPkg)
	case *types.Pointer:
		return c20nodeish(tt.Elem(), astPkg)
	case *types.Named:
		if tt.Obj().Pkg() != astPkg {
			return false
		}
		if types.IsInterface(tt) {
			return true
		}
		if sl, ok := tt.Underlying().(*types.Slice); ok {
			return c20nodeish(sl.Elem(), astPkg) // a named list type (ElemExprList)
		}
		if _, ok := tt.Underlying().(*types.Struct); !ok {
			return false
		}
		ms := types.NewMethodSet(types.NewPointer(tt))
		return ms.Lookup(astPkg, "Format") != nil
	}
	return false
}

func c20coverage(c *Ctx) {
	rule := "C20.R1"
	pk := c.P.Pkg(goctlAst)
	sp := c.P.SSAPkg(goctlAst)
	if pk == nil || sp == nil {
		c.R.Undecided(rule, goctlAst, "anchor resolves", "package not loaded")
		return
	}
	// exemptions: (type.field) → reason; each a single named symbol
	exempt := map[string]string{}
	// presence of a child implied by a sibling (set together by the parser): evaluated with the sibling's nil-ness
	pairedWith := map[string]string{
		"BodyExpr.RBrack":   "LBrack",   // `[` and `]` come together
		"RouteStmt.Returns": "Response", // the `returns` keyword exists iff a response body statement does
	}
	// a child that is semantically empty when one of its own fields is nil: `returns ()`
	emptyWhenNil := map[string]string{
		"RouteStmt.Response": "Body",
		"RouteStmt.Returns":  "Response.Body",
	}
	n := 0
	names := pk.Types.Scope().Names()
	sort.Strings(names)
	for _, name := range names {
		tn, ok := pk.Types.Scope().Lookup(name).(*types.TypeName)
		if !ok {
			continue
		}
		named, ok := tn.Type().(*types.Named)
		if !ok {
			continue
		}
		st, ok := named.Underlying().(*types.Struct)
		if !ok {
			continue
		}
		var fm *ssa.Function
		for i := 0; i < named.NumMethods(); i++ {
			if named.Method(i).Name() == "Format" {
				fm = c.P.SSA.FuncValue(named.Method(i))
			}
		}
		if fm == nil || fm.Blocks == nil {
			continue
		}
		var children []string
		for i := 0; i < st.NumFields(); i++ {
			if c20nodeish(st.Field(i).Type(), pk.Types) {
				children = append(children, st.Field(i).Name())
			}
		}
		if len(children) == 0 || name == "TokenNode" || name == "AST" {
			continue
		}
		n++
		recv := fm.Params[0]
		ps := c.paths(rule, fm, px.Config{MaxVisits: 2, MaxPaths: 100000})
		c.forall(rule, goctlAst+"."+name+".Format", fmt.Sprintf("on every path that produces text, each present child of %v is handed to the writer / a nested Format as a node", children), fm, ps, func(p *px.Path) (bool, string) {
			if p.Exit != px.ExitReturn || len(p.Results) != 1 {
				return true, ""
			}
			if a := p.Abs(p.Results[0]); a.K == px.ConstV {
				return true, "" // constant (empty) text
			}
			// what was executed on this path (calls and loads, keyed by instruction)
			executed := map[ssa.Instruction]bool{}
			for i := range p.Events {
				if in := p.Events[i].Instr; in != nil {
					executed[in] = true
				}
			}
			written := func(v ssa.Value, viaOK bool) bool { return c20flowsToSink(v, executed, pk.Types, viaOK) }
			var checkStruct func(sname string, flds []string, isBase func(b *px.Sym) bool, where string, depth int) (bool, string)
			checkStruct = func(sname string, flds []string, isBase func(b *px.Sym) bool, where string, depth int) (bool, string) {
				for _, fld := range flds {
					key := sname + "." + fld
					if _, ok := exempt[key]; ok {
						continue
					}
					// nil-ness of the field on this path
					loadsOf := func(f string) []*px.Sym {
						var out []*px.Sym
						for i := range p.Events {
							e := &p.Events[i]
							if e.Kind == px.EvLoad && px.FieldAddrIs(e.Addr, f, isBase) {
								out = append(out, e.Val)
							}
						}
						return out
					}
					// the SSA load instructions behind them (go/ssa does not merge repeated loads; the path
					// engine does, so the def-use walk starts from every executed load of the field)
					loadValsOf := func(f string) []ssa.Value {
						var out []ssa.Value
						for i := range p.Events {
							e := &p.Events[i]
							if e.Kind == px.EvLoad && px.FieldAddrIs(e.Addr, f, isBase) {
								if v, ok := e.Instr.(ssa.Value); ok {
									out = append(out, v)
								}
							}
						}
						return out
					}
					absent := func(ls []*px.Sym) bool {
						for _, l := range ls {
							if p.Abs(l).K == px.Nil {
								return true
							}
						}
						firstLenTest := true
						for _, b := range p.All(px.KindIs(px.EvBranch)) {
							cnd := b.Cond.Strip(true)
							if cnd.Kind == px.KCall && cnd.Call != nil && len(cnd.Call.Args) == 1 {
								for _, l := range ls {
									if cnd.Call.Args[0].Strip(false) == l.Strip(false) && strings.Contains(strings.ToLower(cnd.Call.Name()), "nil") && b.Taken {
										return true
									}
								}
							}
							isLenOfField := func(x *px.Sym) bool {
								return isLenOf(x, func(y *px.Sym) bool {
									for _, l := range ls {
										if y.Strip(false) == l.Strip(false) {
											return true
										}
									}
									return false
								})
							}
							if cnd.Kind == px.KBinOp && isLenOfField(cnd.X) {
								if z, ok := constInt(p, cnd.Y); ok && z == 0 && ordHolds(cnd.Op, 0) == b.Taken && ordHolds(cnd.Op, 1) != b.Taken {
									return true // len(list) == 0
								}
							}
							// range loop header `idx < len(list)` false on its first evaluation: empty list
							if cnd.Kind == px.KBinOp && cnd.Op.String() == "<" && isLenOfField(cnd.Y) {
								if firstLenTest && !b.Taken {
									return true
								}
								firstLenTest = false
							}
						}
						return false
					}
					loads := loadsOf(fld)
					isNil := absent(loads)
					if sib, ok := pairedWith[key]; ok && absent(loadsOf(sib)) {
						isNil = true
					}
					if inner, ok := emptyWhenNil[key]; ok {
						parts := strings.Split(inner, ".")
						base := loads
						fieldName := parts[0]
						if len(parts) == 2 {
							base = loadsOf(parts[0])
							fieldName = parts[1]
						}
						for _, b := range p.All(px.KindIs(px.EvBranch)) {
							cnd := b.Cond.Strip(true)
							if cnd.Kind == px.KBinOp && px.IsNilConst(cnd.Y) && px.IsFieldLoad(cnd.X, fieldName, func(bb *px.Sym) bool {
								for _, l := range base {
									if bb.Strip(false) == l.Strip(false) {
										return true
									}
								}
								return false
							}) && (cnd.Op.String() == "==") == b.Taken {
								isNil = true
							}
						}
					}
					if isNil {
						continue
					}
					ok := false
					for _, lv := range loadValsOf(fld) {
						if written(lv, true) {
							ok = true
						}
					}
					if !ok {
						if len(loads) == 0 {
							return false, fmt.Sprintf("child %s%s is never read on a path that produces text: it cannot appear in the formatted output", where, fld)
						}
						return false, fmt.Sprintf("child %s%s is present on this path but does not reach the writer as a node (only inspected, handed to a call whose result is dropped, or printed from its bare/rendered text): the token — or the comments attached to it — is missing from the output", where, fld)
					}
					// a list of struct nodes whose elements are rendered piecewise (the element itself never
					// reaches the writer or its own Format): every child of each element must be covered in turn
					if depth == 0 {
						if est, ename, eflds := c20elemStruct(pk.Types, sname, fld); est != nil {
							seenEl := map[*px.Sym]bool{}
							for i := range p.Events {
								e := &p.Events[i]
								if e.Kind != px.EvLoad || e.Addr == nil || e.Addr.Kind != px.KIndexAddr || e.Addr.X == nil {
									continue
								}
								fromList := false
								for _, l := range loads {
									if e.Addr.X.Strip(false) == l.Strip(false) {
										fromList = true
									}
								}
								ev, isV := e.Instr.(ssa.Value)
								if !fromList || !isV || seenEl[e.Val] {
									continue
								}
								seenEl[e.Val] = true
								if written(ev, false) {
									continue // written as a node
								}
								el := e.Val
								if ok, msg := checkStruct(ename, eflds, func(b *px.Sym) bool { return b.Strip(false) == el.Strip(false) }, fld+"[i].", 1); !ok {
									return false, msg
								}
							}
						}
					}
				}
				return true, ""
			}
			if ok, msg := checkStruct(name, children, func(b *px.Sym) bool { return isParam(b, recv) }, "", 0); !ok {
				return false, msg
			}
			return true, ""
		})
	}
	c.R.Extra["C20.R1_format_methods"] = n
	c.R.Min(rule, 25, "ast node types with a Format method and node-typed children")
}

// c20crash: no path to a process-terminating call from the formatter's entry points.
func c20crash(c *Ctx) {
	rule := "C20.R2"
	entries := []struct{ pkg, fn string }{{goctlFormat, "Source"}, {goctlParser, "(*Parser).Parse"}, {goctlScan, "(*Scanner).NextToken"}, {goctlParser, "New"}}
	// module-internal static call graph + interface calls resolved by CHA over the loaded packages
	fns := map[*ssa.Function]bool{}
	for _, pk := range c.P.Pkgs {
		for _, f := range c.P.AllFuncs(strings.TrimPrefix(pk.PkgPath, mod)) {
			fns[f] = true
		}
	}
	impls := func(m *types.Func) []*ssa.Function {
		var out []*ssa.Function
		for f := range fns {
			if f.Signature.Recv() == nil || f.Name() != m.Name() {
				continue
			}
			if it, ok := m.Type().(*types.Signature).Recv().Type().Underlying().(*types.Interface); ok {
				if types.Implements(f.Signature.Recv().Type(), it) {
					out = append(out, f)
				}
			}
		}
		return out
	}
	type edge struct {
		to  *ssa.Function
		pos string
	}
	fatal := func(cc *ssa.CallCommon) string {
		n := calleeName(cc)
		switch {
		case strings.HasPrefix(n, "log.Fatal"), n == "os.Exit", strings.HasPrefix(n, "(*log.Logger).Fatal"):
			return n
		}
		return ""
	}
	succ := func(f *ssa.Function) (es []edge, fatals []string) {
		var visit func(g *ssa.Function)
		visit = func(g *ssa.Function) {
			for _, b := range g.Blocks {
				for _, ins := range b.Instrs {
					if pn, ok := ins.(*ssa.Panic); ok {
						if !hasRecoverDefer(g) {
							fatals = append(fatals, "panic at "+c.P.Pos(pn.Pos()))
						}
					}
					ci, ok := ins.(ssa.CallInstruction)
					if !ok {
						continue
					}
					cc := ci.Common()
					if n := fatal(cc); n != "" {
						fatals = append(fatals, n+" at "+c.P.Pos(ins.Pos()))
						continue
					}
					if cc.IsInvoke() {
						for _, t := range impls(cc.Method) {
							es = append(es, edge{t, c.P.Pos(ins.Pos())})
						}
						continue
					}
					if t := cc.StaticCallee(); t != nil && fns[t] {
						es = append(es, edge{t, c.P.Pos(ins.Pos())})
					}
				}
			}
			for _, a := range g.AnonFuncs {
				visit(a)
			}
		}
		visit(f)
		return
	}
	for _, en := range entries {
		root := c.fn(rule, en.pkg, en.fn)
		if root == nil {
			continue
		}
		// BFS with parent pointers
		parent := map[*ssa.Function]*ssa.Function{root: nil}
		queue := []*ssa.Function{root}
		type finding struct {
			fn   *ssa.Function
			what string
		}
		var found []finding
		for len(queue) > 0 {
			f := queue[0]
			queue = queue[1:]
			es, fs := succ(f)
			for _, w := range fs {
				found = append(found, finding{f, w})
			}
			for _, e := range es {
				if _, seen := parent[e.to]; !seen {
					parent[e.to] = f
					queue = append(queue, e.to)
				}
			}
		}
		byFn := map[string][]string{}
		for _, fd := range found {
			var chain []string
			for g := fd.fn; g != nil; g = parent[g] {
				chain = append([]string{strings.TrimPrefix(strings.Replace(g.String(), mod, "", -1), "tools/goctl/pkg/parser/api/")}, chain...)
			}
			k := strings.TrimPrefix(strings.Replace(fd.fn.String(), mod, "", -1), "tools/goctl/pkg/parser/api/")
			if why, ok := crashExempt[k]; ok {
				c.R.Extra["C20.R2_exempt:"+k] = why
				continue
			}
			byFn[k] = append(byFn[k], fd.what+" via "+strings.Join(chain, " → "))
		}
		entry := strings.TrimPrefix(en.pkg, "tools/goctl/pkg/parser/api/") + "." + en.fn
		if len(byFn) == 0 {
			o := c.R.Hold(rule, entry, "no process-terminating call (log.Fatal*, os.Exit, unrecovered panic) is reachable: malformed input is reported as an error", len(parent))
			o.Sites = len(parent)
			continue
		}
		var ks []string
		for k := range byFn {
			ks = append(ks, k)
		}
		sort.Strings(ks)
		for _, k := range ks {
			o := c.R.Fail(rule, entry+"→"+k, "no process-terminating call (log.Fatal*, os.Exit, unrecovered panic) is reachable from this entry point: malformed input is reported as an error, never by killing the process", "-",
				strings.Join(byFn[k], "; "), byFn[k])
			o.Paths = len(parent)
		}
	}
	c.R.Min(rule, 4, "format.Source, Parser.Parse, Scanner.NextToken, parser.New")
}

// crashExempt: process-terminating sites that no input can reach (one named symbol each, with the reason).
var crashExempt = map[string]string{
	"parser.New": "log.Fatalln after filepath.Abs(filename) failed: Abs fails only when the process has no working directory, never because of the source text",
}

func hasRecoverDefer(f *ssa.Function) bool {
	for g := f; g != nil; g = g.Parent() {
		for _, b := range g.Blocks {
			for _, ins := range b.Instrs {
				if d, ok := ins.(*ssa.Defer); ok {
					if mc, ok := d.Call.Value.(*ssa.MakeClosure); ok {
						if callsInBody(mc.Fn.(*ssa.Function), func(cc *ssa.CallCommon) bool {
							bi, ok := cc.Value.(*ssa.Builtin)
							return ok && bi.Name() == "recover"
						}) {
							return true
						}
					}
				}
			}
		}
	}
	return false
}

// c20nil: parser constructors return nil only after a failure was observed.
func c20nil(c *Ctx) {
	rule := "C20.R4"
	sp := c.P.SSAPkg(goctlParser)
	if sp == nil {
		c.R.Undecided(rule, goctlParser, "anchor resolves", "package not loaded")
		return
	}
	n := 0
	var fnsL []*ssa.Function
	for _, f := range c.P.AllFuncs(goctlParser) {
		if f.Parent() != nil || recvName(f) != "Parser" || !strings.HasPrefix(f.Name(), "parse") {
			continue
		}
		res := f.Signature.Results()
		if res.Len() != 1 {
			continue
		}
		switch res.At(0).Type().Underlying().(type) {
		case *types.Slice, *types.Pointer, *types.Interface:
			fnsL = append(fnsL, f)
		}
	}
	for _, f := range fnsL {
		n++
		ps := c.paths(rule, f, px.Config{MaxVisits: 2, MaxPaths: 200000})
		name := goctlParser + ".(*Parser)." + f.Name()
		c.forall(rule, name, "nil means 'parsing failed' to every caller: besides explicit `return nil` failures, a result variable is returned only when it is non-nil on that path (an empty list is an allocated empty list)", f, ps, func(p *px.Path) (bool, string) {
			if p.Exit != px.ExitReturn {
				return true, ""
			}
			// the value returned: a literal `return nil` is an explicit failure; a VARIABLE returned on a
			// success path must not be nil on that path
			ret := p.Last(func(e *px.Event) bool { return e.Kind == px.EvReturn && e.Depth == 0 })
			if ret == nil {
				return true, ""
			}
			ri, ok := ret.Instr.(*ssa.Return)
			if !ok || len(ri.Results) != 1 {
				return true, ""
			}
			if _, lit := ri.Results[0].(*ssa.Const); lit {
				return true, ""
			}
			r := p.Results[0]
			if px.IsNilConst(r) || isZeroSym(r) || p.Abs(r).K == px.Nil {
				return false, "a result variable that is still nil is returned on a success path (e.g. a list declared with `var` and never appended to for an empty group): every caller reads nil as 'parsing failed', so well-formed input makes Parse() return a nil AST with no error recorded — and the formatter dereferences it"
			}
			return true, ""
		})
	}
	c.R.Extra["C20.R4_parse_functions"] = n
	c.R.Min(rule, 20, "parse* methods of *Parser returning a node or a list")
}

// c20fields: every child field of an ast node that Format can print is filled somewhere by the parser.
func c20fields(c *Ctx) {
	rule := "C20.R3"
	pk := c.P.Pkg(goctlAst)
	if pk == nil {
		return
	}
	assigned := map[string]int{}
	for _, f := range c.P.AllFuncs(goctlParser) {
		for _, b := range f.Blocks {
			for _, ins := range b.Instrs {
				if st, ok := ins.(*ssa.Store); ok {
					if fa, ok := st.Addr.(*ssa.FieldAddr); ok {
						if cst, isC := st.Val.(*ssa.Const); isC && cst.Value == nil {
							continue // explicit nil
						}
						assigned[namedStructOf(fa.X.Type())+"."+fieldNameOf(fa)]++
					}
				}
			}
		}
	}
	names := pk.Types.Scope().Names()
	sort.Strings(names)
	var missing []string
	total := 0
	// fields the parser legitimately never sets (none known today); each would need a reason here
	exempt := map[string]string{}
	for _, name := range names {
		tn, ok := pk.Types.Scope().Lookup(name).(*types.TypeName)
		if !ok {
			continue
		}
		named, ok := tn.Type().(*types.Named)
		if !ok {
			continue
		}
		st, ok := named.Underlying().(*types.Struct)
		if !ok || name == "TokenNode" || name == "AST" {
			continue
		}
		hasFormat := false
		for i := 0; i < named.NumMethods(); i++ {
			if named.Method(i).Name() == "Format" {
				hasFormat = true
			}
		}
		if !hasFormat {
			continue
		}
		for i := 0; i < st.NumFields(); i++ {
			if !c20nodeish(st.Field(i).Type(), pk.Types) {
				continue
			}
			key := name + "." + st.Field(i).Name()
			total++
			if assigned[key] == 0 {
				if _, ok := exempt[key]; !ok {
					missing = append(missing, key)
				}
			}
		}
	}
	o := c.R.Check(len(missing) == 0 && total >= 60, rule, goctlParser+"⇄"+goctlAst, "every child field an ast node's Format can print is assigned by the parser somewhere (a field the parser stops filling silently disappears from the formatted text)", "-",
		fmt.Sprintf("never assigned in package parser: %v (%d child fields in total)", missing, total), missing, total)
	o.Sites = total
}

// c20scanString: the string scanner examines every rune it consumes. scanString serves both "…" and raw
// strings; a rune swallowed without being compared with the closing delimiter (and with end of input) lets a
// valid string literal run on past its end — format.Source then fails on a valid source.
func c20scanString(c *Ctx) {
	rule := "C20.R5"
	f := c.fn(rule, goctlScan, "(*Scanner).scanString")
	if f == nil {
		return
	}
	delim := f.Params[1]
	ps := c.paths(rule, f, px.Config{MaxVisits: 3, MaxPaths: 100000})
	isRead := func(e *px.Event) bool {
		return e.Kind == px.EvCall && e.Call.Static != nil && e.Call.Static.Name() == "readRune"
	}
	cmpCh := func(e *px.Event, with func(*px.Sym) bool) bool {
		if e.Kind != px.EvBranch {
			return false
		}
		cn := e.Cond.Strip(true)
		if cn.Kind != px.KBinOp || (cn.Op != token.EQL && cn.Op != token.NEQ) {
			return false
		}
		isCh := func(x *px.Sym) bool { return px.IsFieldLoad(x, "ch", nil) }
		return (isCh(cn.X) && with(cn.Y)) || (isCh(cn.Y) && with(cn.X))
	}
	pairs := 0
	held := c.forall(rule, goctlScan+".(*Scanner).scanString", "between two consecutive readRune calls the current rune is compared with the closing delimiter and with end of input (no rune is consumed unexamined)", f, ps, func(p *px.Path) (bool, string) {
		var last *px.Event
		sawDelim, sawEOF := false, false
		for i := range p.Events {
			e := &p.Events[i]
			switch {
			case isRead(e):
				if last != nil {
					pairs++
					if !sawDelim || !sawEOF {
						return false, "a rune is consumed without having been compared with the closing delimiter / end of input: a literal whose last rune is that one is not closed"
					}
				}
				last, sawDelim, sawEOF = e, false, false
			case cmpCh(e, func(y *px.Sym) bool { return isParam(y, delim) }):
				sawDelim = true
				if (e.Cond.Strip(true).Op == token.EQL) == e.Taken {
					sawEOF = true // it is the delimiter: nothing else to ask
				}
			case cmpCh(e, func(y *px.Sym) bool { k, ok := constInt(p, y); return ok && k == 0 }):
				sawEOF = true
			}
		}
		return true, ""
	})
	if held && pairs == 0 {
		c.R.Undecided(rule, goctlScan+".(*Scanner).scanString#reach", "consecutive readRune calls are analysed", "no path with two readRune calls")
	}
}

// c20fullLists: a list of child nodes that a Format method writes from a LOCAL slice must be the complete list:
// every iteration of the loop that builds the local slice appends (no `continue`/condition skips an element).
// Writing from a filtered copy silently drops the skipped children from the formatted text.
func c20fullLists(c *Ctx) {
	rule := "C20.R1b"
	pk := c.P.Pkg(goctlAst)
	if pk == nil {
		c.R.Undecided(rule, goctlAst, "anchor resolves", "package not loaded")
		return
	}
	var bad []string
	direct, local := 0, 0
	for _, fn := range c.P.AllFuncs(goctlAst) {
		if fn.Name() != "Format" || fn.Signature.Recv() == nil {
			continue
		}
		loops := naturalLoops(fn)
		inLoop := func(b *ssa.BasicBlock) map[*ssa.BasicBlock]bool {
			var best map[*ssa.BasicBlock]bool
			for _, l := range loops {
				if l[b] && (best == nil || len(l) < len(best)) {
					best = l
				}
			}
			return best
		}
		for _, b := range fn.Blocks {
			for _, ins := range b.Instrs {
				ia, ok := ins.(*ssa.IndexAddr)
				if !ok || inLoop(b) == nil {
					continue
				}
				sl, ok := ia.X.Type().Underlying().(*types.Slice)
				if !ok || !c20nodeish(sl.Elem(), pk.Types) {
					continue
				}
				// where does the ranged slice come from?
				if isFieldChain(ia.X, fn.Params[0]) {
					direct++
					continue
				}
				// a local list: collect the appends that feed it
				seen := map[ssa.Value]bool{}
				var appends []*ssa.Call
				var walk func(v ssa.Value)
				walk = func(v ssa.Value) {
					if v == nil || seen[v] {
						return
					}
					seen[v] = true
					switch x := v.(type) {
					case *ssa.Phi:
						for _, e := range x.Edges {
							walk(e)
						}
					case *ssa.Call:
						if bi, ok := x.Call.Value.(*ssa.Builtin); ok && bi.Name() == "append" {
							appends = append(appends, x)
							walk(x.Call.Args[0])
						}
					case *ssa.UnOp:
						if al, ok := x.X.(*ssa.Alloc); ok {
							for _, r := range *al.Referrers() {
								if st, ok := r.(*ssa.Store); ok && st.Addr == ssa.Value(al) {
									walk(st.Val)
								}
							}
						}
					}
				}
				walk(ia.X)
				if len(appends) == 0 {
					continue
				}
				local++
				for _, ap := range appends {
					l := inLoop(ap.Block())
					if l == nil {
						continue
					}
					// every back edge of the building loop must be dominated by the append
					var header *ssa.BasicBlock
					for hb := range l {
						if header == nil || hb.Dominates(header) {
							header = hb
						}
					}
					for _, pred := range header.Preds {
						if l[pred] && !ap.Block().Dominates(pred) {
							if skipsOnlyEmptyText(l, header) {
								// the only elements left out are those whose own Format() yields no text: nothing of them
								// would be written anyway (the filter in front of a layout loop, C20.R17)
								continue
							}
							bad = append(bad, fmt.Sprintf("%s: %s writes its children from a local list built by a loop that skips elements (the append at %s is not executed on every iteration): the skipped children disappear from the formatted text", c.P.Pos(ia.Pos()), fn.RelString(fn.Pkg.Pkg), c.P.Pos(ap.Pos())))
						}
					}
				}
			}
		}
	}
	sort.Strings(bad)
	o := c.R.Check(len(bad) == 0 && direct >= 5, rule, goctlAst+".Format#lists", "every loop of a Format method that writes a list of child nodes ranges over the node's own field, or over a local list to which every element was appended unconditionally", "-", strings.Join(bad, "; "), bad, direct+local)
	o.Sites = direct + local
}

// skipsOnlyEmptyText: every conditional inside the loop (other than the loop's own continuation test in the header)
// compares the result of a Format() call with the empty string constant.
func skipsOnlyEmptyText(loop map[*ssa.BasicBlock]bool, header *ssa.BasicBlock) bool {
	n := 0
	for b := range loop {
		if b == header || len(b.Instrs) == 0 {
			continue
		}
		iff, ok := b.Instrs[len(b.Instrs)-1].(*ssa.If)
		if !ok {
			continue
		}
		bo, ok := iff.Cond.(*ssa.BinOp)
		if !ok || (bo.Op != token.EQL && bo.Op != token.NEQ) {
			return false
		}
		isFormat := func(v ssa.Value) bool {
			call, ok := v.(*ssa.Call)
			if !ok {
				return false
			}
			if call.Call.IsInvoke() {
				return call.Call.Method.Name() == "Format" && len(call.Call.Args) <= 1
			}
			cal := call.Call.StaticCallee()
			return cal != nil && cal.Name() == "Format" && cal.Signature.Recv() != nil && len(call.Call.Args) <= 2
		}
		isEmpty := func(v ssa.Value) bool {
			k, ok := v.(*ssa.Const)
			return ok && k.Value != nil && k.Value.Kind() == constant.String && constant.StringVal(k.Value) == ""
		}
		if !(isFormat(bo.X) && isEmpty(bo.Y)) && !(isFormat(bo.Y) && isEmpty(bo.X)) {
			return false
		}
		n++
	}
	return n > 0
}

// isFieldChain: v is a load of (nested) fields rooted at the receiver.
func isFieldChain(v ssa.Value, recv *ssa.Parameter) bool {
	for d := 0; d < 8; d++ {
		switch x := v.(type) {
		case *ssa.UnOp:
			v = x.X
		case *ssa.FieldAddr:
			v = x.X
		case *ssa.Field:
			v = x.X
		case *ssa.Parameter:
			return x == recv
		default:
			return false
		}
	}
	return false
}

// c20tokens: in the parser methods that SYNTHESISE a token from several scanned tokens (a path such as
// /api-v1/users, a service name foo-api: string concatenation of token texts, or a []token.Token joined later)
// every token consumed is captured before the next one is consumed; a token stepped over without its
// value being captured (p.curTok / p.curTok.Text read, or its node fetched) cannot be in the AST, so the
// formatted text differs from the source (e.g. `/api-v1` re-emitted without its dash).
func c20tokens(c *Ctx) {
	rule := "C20.R6"
	sp := c.P.SSAPkg(goctlParser)
	if sp == nil {
		c.R.Undecided(rule, goctlParser, "anchor resolves", "package not loaded")
		return
	}
	storesCur := func(f *ssa.Function) bool {
		for _, b := range f.Blocks {
			for _, ins := range b.Instrs {
				if st, ok := ins.(*ssa.Store); ok {
					if fa, ok := st.Addr.(*ssa.FieldAddr); ok && fieldNameOf(fa) == "curTok" {
						return true
					}
				}
			}
		}
		return false
	}
	var nextFn *ssa.Function
	var methods []*ssa.Function
	for _, f := range c.P.AllFuncs(goctlParser) {
		if f.Parent() != nil || recvName(f) != "Parser" {
			continue
		}
		methods = append(methods, f)
		if storesCur(f) {
			if nextFn != nil {
				c.R.Undecided(rule, goctlParser+"#advance", "exactly one method replaces the current token", "two methods store p.curTok: "+nextFn.Name()+", "+f.Name())
				return
			}
			nextFn = f
		}
	}
	if nextFn == nil {
		c.R.Undecided(rule, goctlParser+"#advance", "anchor resolves", "no method stores p.curTok")
		return
	}
	callsTo := func(f, g *ssa.Function) int {
		n := 0
		for _, b := range f.Blocks {
			for _, ins := range b.Instrs {
				if ci, ok := ins.(ssa.CallInstruction); ok && ci.Common().StaticCallee() == g {
					n++
				}
			}
		}
		return n
	}
	// one-token advancers: the primitive and the bool wrappers that call it once and nothing else that advances
	advancer := map[*ssa.Function]bool{nextFn: true}
	mayAdvance := map[*ssa.Function]bool{nextFn: true}
	for changed := true; changed; {
		changed = false
		for _, f := range methods {
			if mayAdvance[f] {
				continue
			}
			for g := range mayAdvance {
				if callsTo(f, g) > 0 {
					mayAdvance[f] = true
					changed = true
					break
				}
			}
		}
	}
	for _, f := range methods {
		if f == nextFn || callsTo(f, nextFn) != 1 {
			continue
		}
		if r := f.Signature.Results(); r.Len() != 1 || !types.Identical(r.At(0).Type(), types.Typ[types.Bool]) {
			continue
		}
		other := false
		for g := range mayAdvance {
			if g != nextFn && g != f && callsTo(f, g) > 0 {
				other = true
			}
		}
		if !other {
			advancer[f] = true
		}
	}
	// capturing readers: no advance, load p.curTok, return a token node
	capturer := map[*ssa.Function]bool{}
	for _, f := range methods {
		if mayAdvance[f] || f.Signature.Results().Len() != 1 {
			continue
		}
		if !strings.HasSuffix(f.Signature.Results().At(0).Type().String(), "ast.TokenNode") {
			continue
		}
		for _, b := range f.Blocks {
			for _, ins := range b.Instrs {
				if fa, ok := ins.(*ssa.FieldAddr); ok && fieldNameOf(fa) == "curTok" {
					capturer[f] = true
				}
			}
		}
	}
	if len(advancer) < 2 || len(capturer) < 1 {
		c.R.Undecided(rule, goctlParser+"#roles", "the one-token advancers and the token-node reader are recognised", fmt.Sprintf("%d advancers, %d readers", len(advancer), len(capturer)))
		return
	}
	pairs, fns := 0, 0
	for _, f := range methods {
		if advancer[f] || !mayAdvance[f] {
			continue
		}
		n := 0
		for a := range advancer {
			n += callsTo(f, a)
		}
		if n < 2 || !synthesises(f) {
			continue
		}
		fns++
		recv := f.Params[0]
		ps := c.paths(rule, f, px.Config{MaxVisits: 2, MaxPaths: 200000, Keep: mayAdvance})
		c.forall(rule, goctlParser+".(*Parser)."+f.Name(), "in a method that synthesises a token text from several scanned tokens, between two successive one-token advances the consumed token is captured (p.curTok or its Text read as a value, or its node fetched)", f, ps, func(p *px.Path) (bool, string) {
			var pending *px.Event
			for i := range p.Events {
				e := &p.Events[i]
				switch {
				case e.Kind == px.EvCall && e.Call.Static != nil && advancer[e.Call.Static]:
					if pending != nil {
						pairs++
						return false, fmt.Sprintf("the token consumed at %s is never captured before the next token is consumed: it is missing from the AST and from the formatted text", c.P.Pos(pending.Instr.Pos()))
					}
					pending = nil
					if e.Res != nil && p.Abs(e.Res).K == px.True {
						pending = e
					}
					if pending == nil {
						pairs++
					}
				case e.Kind == px.EvCall && e.Call.Static != nil && (capturer[e.Call.Static] || mayAdvance[e.Call.Static]):
					pending = nil
				case e.Kind == px.EvCall && e.Call.Static == nil && e.Call.Builtin == "":
					pending = nil // dynamic call: unknown
				case e.Kind == px.EvLoad:
					// p.curTok (whole token) or p.curTok.Text
					a := e.Addr
					isCur := func(x *px.Sym) bool {
						return px.FieldAddrIs(x, "curTok", func(b *px.Sym) bool { return isParam(b, recv) })
					}
					if isCur(a) || (a.Kind == px.KFieldAddr && isCur(a.X) && px.FieldAddrIs(a, "Text", nil)) {
						pending = nil
					}
				}
			}
			return true, ""
		})
	}
	c.R.Extra["C20.R6_functions"] = fns
	c.R.Min(rule, 3, "parser methods that synthesise a token from several scanned tokens")
}

// synthesises: the function concatenates token texts, or collects scanned tokens into a []token.Token.
func synthesises(f *ssa.Function) bool {
	isTok := func(t types.Type) bool {
		n, ok := t.(*types.Named)
		return ok && n.Obj().Name() == "Token" && n.Obj().Pkg() != nil && strings.HasSuffix(n.Obj().Pkg().Path(), "/token")
	}
	textOf := func(v ssa.Value) bool {
		switch x := v.(type) {
		case *ssa.UnOp:
			if fa, ok := x.X.(*ssa.FieldAddr); ok && fieldNameOf(fa) == "Text" {
				if pt, ok := fa.X.Type().Underlying().(*types.Pointer); ok && isTok(pt.Elem()) {
					return true
				}
			}
		case *ssa.Field:
			if isTok(x.X.Type()) {
				if st, ok := x.X.Type().Underlying().(*types.Struct); ok && st.Field(x.Field).Name() == "Text" {
					return true
				}
			}
		}
		return false
	}
	for _, b := range f.Blocks {
		for _, ins := range b.Instrs {
			switch x := ins.(type) {
			case *ssa.BinOp:
				if x.Op == token.ADD && (textOf(x.X) || textOf(x.Y)) {
					return true
				}
			case *ssa.Call:
				if bi, ok := x.Call.Value.(*ssa.Builtin); ok && bi.Name() == "append" {
					if sl, ok := x.Type().Underlying().(*types.Slice); ok && isTok(sl.Elem()) {
						return true
					}
				}
			}
		}
	}
	return false
}

// c20index: no parser/scanner path indexes a slice that is nil on that path (a list that received no element on
// this path, e.g. the path tokens of a route written without a path) — an index panic is a crash, not an error.
func c20index(c *Ctx) {
	rule := "C20.R2b"
	n := 0
	for _, f := range c.P.AllFuncs(goctlParser) {
		if f.Parent() != nil || recvName(f) != "Parser" || !strings.HasPrefix(f.Name(), "parse") {
			continue
		}
		has := false
		for _, b := range f.Blocks {
			for _, ins := range b.Instrs {
				if ia, ok := ins.(*ssa.IndexAddr); ok {
					if _, isSl := ia.X.Type().Underlying().(*types.Slice); isSl {
						if _, isC := ia.Index.(*ssa.Const); isC {
							has = true
						}
					}
				}
			}
		}
		if !has {
			continue
		}
		n++
		ps := c.paths(rule, f, px.Config{MaxVisits: 2, MaxPaths: 200000})
		c.forall(rule, goctlParser+".(*Parser)."+f.Name(), "a constant index is applied only to a list that holds an element on that path (invalid input is answered with an error, not an index panic)", f, ps, func(p *px.Path) (bool, string) {
			for i := range p.Events {
				e := &p.Events[i]
				if e.Kind != px.EvLoad && e.Kind != px.EvStore {
					continue
				}
				for a := e.Addr; a != nil; a = a.X {
					if a.Kind == px.KIndexAddr && a.Index >= 0 && a.X != nil {
						if _, isSl := a.X.Typ.Underlying().(*types.Slice); isSl && (px.IsNilConst(a.X) || p.Abs(a.X).K == px.Nil) {
							return false, fmt.Sprintf("element %d of a list that is still nil on this path is read at %s: the parser panics (index out of range) instead of reporting a syntax error", a.Index, c.P.Pos(e.Instr.Pos()))
						}
					}
					if a.Kind != px.KFieldAddr && a.Kind != px.KIndexAddr {
						break
					}
				}
			}
			return true, ""
		})
	}
	c.R.Min(rule, 1, "parse* methods applying a constant index to a slice")
	// (round 8) the other functions of the parser package — the analyzer that turns the AST into the API description:
	// a constant index into a list that was handed in (a field of a parameter) is dominated by a test of that list's
	// length; a source without statements (blank, comments only) parses to an AST with an empty statement list
	sameSlice := func(a, b ssa.Value) bool {
		if a == b {
			return true
		}
		la, ok1 := a.(*ssa.UnOp)
		lb, ok2 := b.(*ssa.UnOp)
		if !ok1 || !ok2 {
			return false
		}
		fa, ok1 := la.X.(*ssa.FieldAddr)
		fb, ok2 := lb.X.(*ssa.FieldAddr)
		return ok1 && ok2 && fa.Field == fb.Field && fa.X == fb.X
	}
	for _, f := range c.P.AllFuncs(goctlParser) {
		if recvName(f) == "Parser" && strings.HasPrefix(f.Name(), "parse") {
			continue
		}
		for _, b := range f.Blocks {
			for _, ins := range b.Instrs {
				ia, ok := ins.(*ssa.IndexAddr)
				if !ok {
					continue
				}
				if _, isSl := ia.X.Type().Underlying().(*types.Slice); !isSl {
					continue
				}
				if _, isC := ia.Index.(*ssa.Const); !isC {
					continue
				}
				ld, isLoad := ia.X.(*ssa.UnOp)
				if !isLoad {
					continue
				}
				if _, isField := ld.X.(*ssa.FieldAddr); !isField {
					continue
				}
				pos, neg := knownCondsBoth(b, 0)
				tested := false
				for _, cnd := range append(pos, neg...) {
					bo, ok := cnd.(*ssa.BinOp)
					if !ok {
						continue
					}
					for _, side := range []ssa.Value{bo.X, bo.Y} {
						if call, ok := side.(*ssa.Call); ok {
							if bi, ok := call.Call.Value.(*ssa.Builtin); ok && bi.Name() == "len" && len(call.Call.Args) == 1 && sameSlice(call.Call.Args[0], ia.X) {
								tested = true
							}
						}
					}
				}
				name := goctlParser + "." + f.Name() + "#const-index"
				text := "a constant index into a list the function was handed is dominated by a test of that list's length (a source without statements is answered with an error, not an index panic)"
				if tested {
					c.R.Hold(rule, name, text, 1)
				} else {
					c.R.Fail(rule, name, text, c.P.Pos(ia.Pos()), "the list is indexed without its length having been tested: an AST without statements (blank source, comments only) makes the analyzer panic with index out of range", nil)
				}
			}
		}
	}
}

// c20rendering: the called method puts its receiver into the output — a Format method, or a
// method that is handed the writer.
func c20rendering(ci *px.CallInfo) bool {
	o := ci.Obj()
	if o == nil {
		return true // unresolved: do not guess (counts as written, as before)
	}
	if o.Name() == "Format" {
		return true
	}
	sig, _ := o.Type().(*types.Signature)
	if sig == nil {
		return true
	}
	for i := 0; i < sig.Params().Len(); i++ {
		if strings.Contains(sig.Params().At(i).Type().String(), "Writer") {
			return true
		}
	}
	return false
}

// c20flowsToSink follows v along SSA def-use edges (call argument → call result, phis, appends,
// stores into local lists and objects, string concatenation, element/field selection of node type)
// and reports whether it reaches the output on the path whose executed instructions are given: an
// argument of a call on — or handed — the line-aware Writer, the receiver of a Format method or of a
// method that takes the writer, or the returned text. Calls that were not executed on the path are
// not crossed. viaField=false stops at field selections of v itself (used to ask "is the element
// written as a node, or only piecewise").
func c20flowsToSink(v ssa.Value, executed map[ssa.Instruction]bool, astPkg *types.Package, viaField bool) bool {
	isWriterT := func(t types.Type) bool {
		if p, ok := t.(*types.Pointer); ok {
			t = p.Elem()
		}
		n, ok := t.(*types.Named)
		return ok && n.Obj().Name() == "Writer" && n.Obj().Pkg() == astPkg
	}
	seen := map[ssa.Value]bool{}
	var work []ssa.Value
	push := func(x ssa.Value) {
		if x != nil && !seen[x] {
			seen[x] = true
			work = append(work, x)
		}
	}
	root := func(a ssa.Value) ssa.Value {
		for {
			switch x := a.(type) {
			case *ssa.FieldAddr:
				a = x.X
			case *ssa.IndexAddr:
				a = x.X
			default:
				return a
			}
		}
	}
	push(v)
	for len(work) > 0 {
		x := work[0]
		work = work[1:]
		refs := x.Referrers()
		if refs == nil {
			continue
		}
		for _, r := range *refs {
			switch y := r.(type) {
			case *ssa.Return:
				return true
			case ssa.CallInstruction:
				if !executed[y] {
					continue
				}
				cc := y.Common()
				if b, ok := cc.Value.(*ssa.Builtin); ok {
					if b.Name() == "append" {
						if val := y.Value(); val != nil {
							push(val)
						}
					}
					continue
				}
				isRecv, mname := false, ""
				sink := false
				if cc.IsInvoke() {
					isRecv, mname = cc.Value == x, cc.Method.Name()
					sink = isWriterT(cc.Value.Type())
				} else if sc := cc.StaticCallee(); sc != nil && sc.Signature.Recv() != nil && len(cc.Args) > 0 {
					isRecv, mname = cc.Args[0] == x, sc.Name()
				}
				for _, a := range cc.Args {
					if isWriterT(a.Type()) {
						sink = true
					}
				}
				if isRecv {
					// inspections (RawText, CommentGroup, ContainsStruct, IsZeroString …) do not write the receiver
					if mname == "Format" || (sink && !isWriterT(x.Type())) {
						return true
					}
					continue
				}
				if sink {
					return true
				}
				if val := y.Value(); val != nil {
					push(val)
				}
			case *ssa.FieldAddr:
				if y.X != x {
					continue
				}
				if x == v && !viaField {
					continue
				}
				if pt, ok := y.X.Type().Underlying().(*types.Pointer); ok {
					if st, ok := pt.Elem().Underlying().(*types.Struct); ok && c20nodeish(st.Field(y.Field).Type(), astPkg) {
						push(y)
					}
				}
			case *ssa.Field:
				if st, ok := y.X.Type().Underlying().(*types.Struct); ok && c20nodeish(st.Field(y.Field).Type(), astPkg) && (x != v || viaField) {
					push(y)
				}
			case *ssa.Store:
				if y.Val == x {
					push(root(y.Addr))
				}
			case *ssa.Phi, *ssa.ChangeType, *ssa.ChangeInterface, *ssa.MakeInterface, *ssa.Convert, *ssa.Slice,
				*ssa.TypeAssert, *ssa.Extract, *ssa.BinOp, *ssa.UnOp, *ssa.Index, *ssa.IndexAddr, *ssa.Lookup, *ssa.Range, *ssa.Next:
				push(r.(ssa.Value))
			}
		}
	}
	return false
}

// c20elemStruct: field fld of ast struct sname is a list of pointers to an ast struct with
// node-typed children of its own; returns that struct, its name and those children.
func c20elemStruct(astPkg *types.Package, sname, fld string) (*types.Struct, string, []string) {
	tn, _ := astPkg.Scope().Lookup(sname).(*types.TypeName)
	if tn == nil {
		return nil, "", nil
	}
	st, _ := tn.Type().Underlying().(*types.Struct)
	if st == nil {
		return nil, "", nil
	}
	for i := 0; i < st.NumFields(); i++ {
		if st.Field(i).Name() != fld {
			continue
		}
		sl, ok := st.Field(i).Type().Underlying().(*types.Slice)
		if !ok {
			return nil, "", nil
		}
		pt, ok := sl.Elem().(*types.Pointer)
		if !ok {
			return nil, "", nil
		}
		named, ok := pt.Elem().(*types.Named)
		if !ok || named.Obj().Pkg() != astPkg || named.Obj().Name() == "TokenNode" {
			return nil, "", nil
		}
		est, ok := named.Underlying().(*types.Struct)
		if !ok {
			return nil, "", nil
		}
		var flds []string
		for j := 0; j < est.NumFields(); j++ {
			if c20nodeish(est.Field(j).Type(), astPkg) {
				flds = append(flds, est.Field(j).Name())
			}
		}
		if len(flds) == 0 {
			return nil, "", nil
		}
		return est, named.Obj().Name(), flds
	}
	return nil, "", nil
}
