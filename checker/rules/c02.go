package rules

import (
	"fmt"
	"go/constant"
	"go/token"
	"go/types"
	"math/big"
	"strings"

	"golang.org/x/tools/go/ssa"

	"gzverify/px"
)

// C02 — adaptive load shedder.
func init() { register("C02", "other", c02) }

const loadPkg = "core/load"

func c02(c *Ctx) {
	c.R.RuleText = "path rules over Allow/shouldDrop/highThru/stillHot/systemOverloaded/promise methods and the two in-tree users; who-may-touch for flying and overloadTime; constants 10% and 1 s"
	c.R.Explain = "Structural necessary conditions of C02 on all paths: ErrServiceOverloaded only when shouldDrop() was true, and then nothing is counted in flight; shouldDrop true only with highThru ∧ (systemOverloaded ∨ stillHot), and true whenever those hold; highThru is the conjunction of two strict > against maxFlight()·overloadFactor(), overloadFactor ≥ 0.1; every admission adds +1 in flight and each promise resolution adds −1 exactly once; flying is written only by addFlying; overloadTime is set only by systemOverloaded on the overloaded branch; stillHot only within the 1 s cool-off; disabled ⇒ nop shedder; REST/zRPC users resolve the promise exactly once on every exit incl. panic. NOT decided: the capacity estimate as a function of history, CPU traces, interleavings."
	c.R.Assume = append(c.R.Assume, "panics originate in the wrapped handler", "RollingWindow and stat.CpuUsage as documented")
	c02allow(c)
	c02shouldDrop(c)
	c02highThru(c)
	c02promise(c)
	c02hot(c)
	c02disabled(c)
	c02construct(c)
	c02latency(c)
	c02users(c)
	// the rolling window whose sums the decision is computed from (same structure rules as C16.R5)
	c16windowAs(c, "C02.R8")
	c02windowScale(c)
	c02siblings(c)
	{
		bad, sites := c.instanceStateFresh(loadPkg, "adaptiveShedder")
		c.R.Check(len(bad) == 0 && sites >= 4, "C02.R11", loadPkg+".adaptiveShedder#own-state", "the overload timestamp, the dropped-recently flag and the two windows of a shedder are made for that shedder (no package-level variable behind them): another shedder's overloads do not keep this one's cool-off alive", "-", fmt.Sprintf("%d state fields initialised; %s", sites, strings.Join(bad, "; ")), bad, sites)
	}
	// R12 (round 8): ShedderGroup hands out one shedder per key through syncx.ResourceManager — its create-once rules (C07)
	// are part of this check (two shedders for one key split the in-flight count)
	runShared(c, "C07.", "C02.R12·C07.", c07)
	// R13 (round 8)
	chainContains(c, "C02.R13", "Shedding", "SheddingHandler", "the shedding middleware")
	c02setUpFirst(c)
}

func loadCall(name string) px.Pred {
	return calleeIs("core/load.(*adaptiveShedder)." + name)
}

func c02allow(c *Ctx) {
	rule := "C02.R1"
	f := c.fn(rule, loadPkg, "(*adaptiveShedder).Allow")
	if f == nil {
		return
	}
	ps := c.paths(rule, f, px.Config{})
	sd, af := loadCall("shouldDrop"), loadCall("addFlying")
	c.forall(rule, "core/load.(*adaptiveShedder).Allow", "ErrServiceOverloaded only when shouldDrop() was true, then addFlying×0; admitted ⇒ addFlying(+1)×1 and a promise bound to this shedder with nil error", f, ps, func(p *px.Path) (bool, string) {
		s := p.First(sd)
		if s == nil || p.Count(sd) != 1 {
			return false, "shouldDrop() not consulted exactly once"
		}
		if len(p.Results) != 2 {
			return false, "arity"
		}
		switch p.Abs(s.Res).K {
		case px.True:
			if p.Count(af) != 0 {
				return false, "a shed request is counted in flight"
			}
			if !px.IsNilConst(p.Results[0]) || !px.IsGlobalLoad(p.Results[1], mod+loadPkg, "ErrServiceOverloaded") {
				return false, "shed request does not return (nil, ErrServiceOverloaded)"
			}
		case px.False:
			es := p.All(af)
			if len(es) != 1 {
				return false, fmt.Sprintf("addFlying ×%d on admission", len(es))
			}
			if a := p.Abs(es[0].Call.Args[1]); a.K != px.ConstV || !constant.Compare(a.C, token.EQL, constant.MakeInt64(1)) {
				return false, "admission does not add exactly +1 in flight"
			}
			if !isParam(es[0].Call.Args[0], f.Params[0]) {
				return false, "in-flight counted on another shedder"
			}
			if !px.IsNilConst(p.Results[1]) {
				return false, "admission returns an error"
			}
			if px.IsNilConst(p.Results[0]) {
				return false, "admission returns no promise"
			}
			// the promise's shedder field is this shedder
			okShedder := false
			for _, e := range p.All(px.KindIs(px.EvStore)) {
				if px.FieldAddrIs(e.Addr, "shedder", nil) && isParam(e.Val, f.Params[0]) {
					okShedder = true
				}
			}
			if !okShedder {
				return false, "the promise is not bound to this shedder"
			}
		default:
			return false, "shouldDrop() result not tested"
		}
		return true, ""
	})
}

func c02shouldDrop(c *Ctx) {
	rule := "C02.R2"
	f := c.fn(rule, loadPkg, "(*adaptiveShedder).shouldDrop")
	if f == nil {
		return
	}
	ps := c.paths(rule, f, px.Config{})
	so, sh, ht := loadCall("systemOverloaded"), loadCall("stillHot"), loadCall("highThru")
	anyIs := func(p *px.Path, pr px.Pred, k px.AbsK) bool {
		for _, e := range p.All(pr) {
			if p.Abs(e.Res).K == k {
				return true
			}
		}
		return false
	}
	c.forall(rule, "core/load.(*adaptiveShedder).shouldDrop", "true ⇔ highThru() ∧ (systemOverloaded() ∨ stillHot()) on the path", f, ps, func(p *px.Path) (bool, string) {
		if len(p.Results) != 1 {
			return false, "arity"
		}
		r := p.Abs(p.Results[0]).K
		hot := anyIs(p, so, px.True) || anyIs(p, sh, px.True)
		high := anyIs(p, ht, px.True)
		switch r {
		case px.True:
			if !high {
				return false, "drops without highThru() having been true"
			}
			if !hot {
				return false, "drops although neither systemOverloaded() nor stillHot() was true"
			}
		case px.False:
			if high && hot {
				return false, "does not drop although the system is overloaded/hot and over capacity"
			}
		default:
			return false, "result is not a decided boolean: " + p.Results[0].Describe()
		}
		return true, ""
	})
}

// mulLeaves flattens a product into its leaf factors (conversions transparent).
func mulLeaves(s *px.Sym, out *[]*px.Sym) {
	s = s.Strip(true)
	if s.Kind == px.KBinOp && s.Op == token.MUL {
		mulLeaves(s.X, out)
		mulLeaves(s.Y, out)
		return
	}
	*out = append(*out, s)
}

func isCallTo(s *px.Sym, name string) bool {
	s = s.Strip(true)
	return s != nil && s.Kind == px.KCall && s.Call != nil && shortName(s.Call) == name
}

func c02highThru(c *Ctx) {
	rule := "C02.R3"
	f := c.fn(rule, loadPkg, "(*adaptiveShedder).highThru")
	if f != nil {
		ps := c.paths(rule, f, px.Config{})
		isCap := func(s *px.Sym) bool {
			var ls []*px.Sym
			mulLeaves(s, &ls)
			if len(ls) != 2 {
				return false
			}
			a, b := ls[0], ls[1]
			return (isCallTo(a, "core/load.(*adaptiveShedder).maxFlight") && isCallTo(b, "core/load.(*adaptiveShedder).overloadFactor")) ||
				(isCallTo(b, "core/load.(*adaptiveShedder).maxFlight") && isCallTo(a, "core/load.(*adaptiveShedder).overloadFactor"))
		}
		// a strict "x > cap" comparison; returns which quantity x is
		classify := func(s *px.Sym) string {
			s = s.Strip(false)
			if s.Kind != px.KBinOp {
				return ""
			}
			x, y, op := s.X, s.Y, s.Op
			if op == token.LSS {
				x, y, op = y, x, token.GTR
			}
			if op != token.GTR || !isCap(y) {
				return ""
			}
			xs := x.Strip(true)
			if px.IsFieldLoad(xs, "avgFlying", nil) {
				return "avg"
			}
			if isCallTo(xs, "sync/atomic.LoadInt64") && len(xs.Call.Args) == 1 && px.FieldAddrIs(xs.Call.Args[0], "flying", nil) {
				return "flying"
			}
			return ""
		}
		c.forall(rule, "core/load.(*adaptiveShedder).highThru", "true only when both avgFlying and flying are strictly greater than maxFlight()·overloadFactor()", f, ps, func(p *px.Path) (bool, string) {
			r := p.Results[0].Strip(false)
			if p.Abs(r).K == px.False {
				return true, ""
			}
			seen := map[string]bool{}
			if k := classify(r); k != "" {
				seen[k] = true
			} else if p.Abs(r).K != px.True {
				return false, "result is not a strict comparison against maxFlight()·overloadFactor(): " + r.Describe()
			}
			for _, e := range p.All(px.KindIs(px.EvBranch)) {
				if k := classify(e.Cond); k != "" && e.Taken {
					seen[k] = true
				}
			}
			if !seen["avg"] || !seen["flying"] {
				return false, fmt.Sprintf("a true result does not require both strict comparisons (established: %v)", seen)
			}
			return true, ""
		})
	}
	if f := c.fn(rule, loadPkg, "(*adaptiveShedder).overloadFactor"); f != nil {
		ps := c.paths(rule, f, px.Config{})
		lb := constVal(c, loadPkg, "overloadFactorLowerBound")
		c.forall(rule, "core/load.(*adaptiveShedder).overloadFactor", "the overload factor is clamped by mathx.Between(·, lower bound ≥ 0.1, 1)", f, ps, func(p *px.Path) (bool, string) {
			r := p.Results[0].Strip(false)
			if !isCallTo(r, "core/mathx.Between") || len(r.Call.Args) != 3 {
				return false, "result is not mathx.Between(…)"
			}
			lo, hi := p.Abs(r.Call.Args[1]), p.Abs(r.Call.Args[2])
			if lo.K != px.ConstV || hi.K != px.ConstV {
				return false, "bounds are not constants"
			}
			if lb == nil || !numEq(lo.C, lb) || numLess(lo.C, constant.MakeFromLiteral("0.1", token.FLOAT, 0)) {
				return false, "lower bound is below 10%"
			}
			if !constant.Compare(hi.C, token.EQL, constant.MakeInt64(1)) {
				return false, "upper bound is not 1"
			}
			return true, ""
		})
	}
	if f := c.fn(rule, loadPkg, "(*adaptiveShedder).maxFlight"); f != nil {
		ps := c.paths(rule, f, px.Config{})
		c.forall(rule, "core/load.(*adaptiveShedder).maxFlight", "capacity estimate = AtLeast(maxPass()·minRt()·windowScale, 1)", f, ps, func(p *px.Path) (bool, string) {
			r := p.Results[0].Strip(false)
			if !isCallTo(r, "core/mathx.AtLeast") || len(r.Call.Args) != 2 {
				return false, "result is not mathx.AtLeast(…)"
			}
			var ls []*px.Sym
			mulLeaves(r.Call.Args[0], &ls)
			got := map[string]int{}
			for _, l := range ls {
				switch {
				case isCallTo(l, "core/load.(*adaptiveShedder).maxPass"):
					got["maxPass"]++
				case isCallTo(l, "core/load.(*adaptiveShedder).minRt"):
					got["minRt"]++
				case px.IsFieldLoad(l, "windowScale", nil):
					got["windowScale"]++
				default:
					got["other:"+l.Describe()]++
				}
			}
			if len(ls) != 3 || got["maxPass"] != 1 || got["minRt"] != 1 || got["windowScale"] != 1 {
				return false, fmt.Sprintf("product factors: %v", got)
			}
			if a := p.Abs(r.Call.Args[1]); a.K != px.ConstV || !constant.Compare(a.C, token.EQL, constant.MakeInt64(1)) {
				return false, "floor is not 1"
			}
			return true, ""
		})
	}
	c.R.Min(rule, 3, "highThru, overloadFactor, maxFlight")
}

func c02promise(c *Ctx) {
	rule := "C02.R4"
	af := loadCall("addFlying")
	for _, m := range []string{"(*promise).Pass", "(*promise).Fail"} {
		f := c.fn(rule, loadPkg, m)
		if f == nil {
			continue
		}
		ps := c.paths(rule, f, px.Config{})
		c.forall(rule, "core/load."+m, "resolving a promise removes exactly one request from flight on the promise's own shedder", f, ps, func(p *px.Path) (bool, string) {
			es := p.All(af)
			if len(es) != 1 {
				return false, fmt.Sprintf("addFlying ×%d", len(es))
			}
			if a := p.Abs(es[0].Call.Args[1]); a.K != px.ConstV || !constant.Compare(a.C, token.EQL, constant.MakeInt64(-1)) {
				return false, "delta is not −1"
			}
			if !px.IsFieldLoad(es[0].Call.Args[0], "shedder", func(b *px.Sym) bool { return isParam(b, f.Params[0]) }) {
				return false, "applied to another shedder"
			}
			return true, ""
		})
	}
	// who may touch adaptiveShedder.flying
	sp := c.P.SSAPkg(loadPkg)
	if sp == nil {
		return
	}
	sites, bad := 0, ""
	for _, fn := range c.P.AllFuncs(loadPkg) {
		for _, b := range fn.Blocks {
			for _, ins := range b.Instrs {
				fa, ok := ins.(*ssa.FieldAddr)
				if !ok || fieldNameOf(fa) != "flying" || !isNamedStruct(fa.X.Type(), "adaptiveShedder") {
					continue
				}
				for _, ref := range *fa.Referrers() {
					sites++
					switch r := ref.(type) {
					case *ssa.Call:
						switch calleeName(&r.Call) {
						case "sync/atomic.LoadInt64":
						case "sync/atomic.AddInt64":
							if fn.Name() != "addFlying" {
								bad = fn.String() + " modifies flying at " + c.P.Pos(r.Pos())
							}
						default:
							bad = fn.String() + " passes &flying to " + calleeName(&r.Call) + " at " + c.P.Pos(r.Pos())
						}
					case *ssa.UnOp:
						// plain read (non-atomic) — not a write
					case *ssa.DebugRef:
					default:
						bad = fmt.Sprintf("%s uses &flying in %T at %s", fn, ref, c.P.Pos(ref.Pos()))
					}
				}
			}
		}
	}
	o := c.R.Check(bad == "" && sites >= 2, rule, "core/load.adaptiveShedder.flying", "the in-flight counter is modified only by addFlying (atomic add), everything else only loads it", "-", bad+fmt.Sprintf(" (%d reference sites)", sites), nil, 0)
	o.Sites = sites
	if f := c.fn(rule, loadPkg, "(*adaptiveShedder).addFlying"); f != nil {
		ps := c.paths(rule, f, px.Config{})
		c.forall(rule, "core/load.(*adaptiveShedder).addFlying", "addFlying applies its delta to flying exactly once, atomically", f, ps, func(p *px.Path) (bool, string) {
			es := p.All(calleeIs("sync/atomic.AddInt64"))
			if len(es) != 1 || !px.FieldAddrIs(es[0].Call.Args[0], "flying", nil) || !isParam(es[0].Call.Args[1], f.Params[1]) {
				return false, "flying += delta not applied exactly once"
			}
			return true, ""
		})
	}
	c.R.Min(rule, 4, "Pass, Fail, flying touchers, addFlying")
}

func fieldNameOf(fa *ssa.FieldAddr) string {
	t := fa.X.Type()
	if p, ok := t.Underlying().(*types.Pointer); ok {
		t = p.Elem()
	}
	if st, ok := t.Underlying().(*types.Struct); ok {
		return st.Field(fa.Field).Name()
	}
	return ""
}

func isNamedStruct(t types.Type, name string) bool {
	if p, ok := t.Underlying().(*types.Pointer); ok {
		t = p.Elem()
	}
	n, ok := t.(*types.Named)
	return ok && n.Obj().Name() == name
}

// fieldMethodSites lists, over all functions of a package, the calls of method
// `method` whose receiver is loaded from field `field`; returns enclosing function names.
func fieldMethodSites(c *Ctx, pkg, field, method string) map[string]int {
	out := map[string]int{}
	for _, fn := range c.P.AllFuncs(pkg) {
		for _, b := range fn.Blocks {
			for _, ins := range b.Instrs {
				call, ok := ins.(ssa.CallInstruction)
				if !ok {
					continue
				}
				cc := call.Common()
				var recv ssa.Value
				name := ""
				if cc.IsInvoke() {
					recv, name = cc.Value, cc.Method.Name()
				} else if sc := cc.StaticCallee(); sc != nil && sc.Signature.Recv() != nil && len(cc.Args) > 0 {
					recv, name = cc.Args[0], sc.Name()
				}
				if name != method || recv == nil {
					continue
				}
				if u, ok := recv.(*ssa.UnOp); ok && u.Op == token.MUL {
					if fa, ok := u.X.(*ssa.FieldAddr); ok && fieldNameOf(fa) == field {
						out[fn.Name()]++
					}
				}
			}
		}
	}
	return out
}

func c02hot(c *Ctx) {
	rule := "C02.R5"
	cool := constVal(c, loadPkg, "coolOffDuration")
	c.R.Check(cool != nil && constant.Compare(constant.ToInt(cool), token.EQL, constant.MakeInt64(1_000_000_000)), rule, "core/load.coolOffDuration", "cool-off window is the 1 s of the statement", "-", fmt.Sprintf("coolOffDuration=%v", cool), nil, 1)
	if f := c.fn(rule, loadPkg, "(*adaptiveShedder).stillHot"); f != nil && cool != nil {
		ps := c.paths(rule, f, px.Config{})
		c.forall(rule, "core/load.(*adaptiveShedder).stillHot", "true only when droppedRecently ∧ overloadTime ≠ 0 ∧ Since(overloadTime) < coolOffDuration", f, ps, func(p *px.Path) (bool, string) {
			if p.Abs(p.Results[0]).K == px.False {
				return true, ""
			}
			if p.Abs(p.Results[0]).K != px.True {
				return false, "undecided result"
			}
			dr := false
			for _, e := range p.All(calleeIs("core/syncx.(*AtomicBool).True")) {
				if px.IsFieldLoad(e.Call.Recv, "droppedRecently", nil) && p.Abs(e.Res).K == px.True {
					dr = true
				}
			}
			if !dr {
				return false, "hot without a recent drop"
			}
			var ot *px.Sym
			for _, e := range p.All(calleeIs("core/syncx.(*AtomicDuration).Load")) {
				if px.IsFieldLoad(e.Call.Recv, "overloadTime", nil) {
					ot = e.Res
				}
			}
			if ot == nil {
				return false, "overloadTime not consulted"
			}
			within, nonzero := false, false
			for _, e := range p.All(px.KindIs(px.EvBranch)) {
				cnd := e.Cond
				if cnd.Kind != px.KBinOp {
					continue
				}
				x, y, op := cnd.X, cnd.Y, cnd.Op
				if isConstSym(x) && !isConstSym(y) {
					x, y, op = y, x, flip(op)
				}
				ay := p.Abs(y)
				if ay.K != px.ConstV {
					continue
				}
				if x.Strip(true) == ot.Strip(true) && constant.Sign(ay.C) == 0 {
					if (op == token.EQL && !e.Taken) || (op == token.NEQ && e.Taken) || (op == token.GTR && e.Taken) || (op == token.LEQ && !e.Taken) {
						nonzero = true
					}
				}
				if isElapsedSince(x, ot) && constant.Compare(ay.C, token.EQL, cool) {
					if (op == token.LSS && e.Taken) || (op == token.GEQ && !e.Taken) {
						within = true
					}
				}
			}
			if !nonzero {
				return false, "hot although overloadTime was never set (zero not excluded)"
			}
			if !within {
				return false, "hot without Since(overloadTime) < coolOffDuration"
			}
			return true, ""
		})
	}
	if f := c.fn(rule, loadPkg, "(*adaptiveShedder).systemOverloaded"); f != nil {
		ps := c.paths(rule, f, px.Config{})
		set := func(e *px.Event) bool {
			return calleeIs("core/syncx.(*AtomicDuration).Set")(e) && px.IsFieldLoad(e.Call.Recv, "overloadTime", nil)
		}
		c.forall(rule, "core/load.(*adaptiveShedder).systemOverloaded", "true ⇔ the overload checker said so for this shedder's threshold; overloadTime ← now exactly then", f, ps, func(p *px.Path) (bool, string) {
			var chk *px.Event
			for _, e := range p.All(px.DynWhere(func(s *px.Sym) bool { return px.IsGlobalLoad(s, mod+loadPkg, "systemOverloadChecker") })) {
				chk = e
			}
			if chk == nil {
				return false, "systemOverloadChecker not consulted"
			}
			if len(chk.Call.Args) != 1 || !px.IsFieldLoad(chk.Call.Args[0], "cpuThreshold", nil) {
				return false, "checker not applied to this shedder's cpuThreshold"
			}
			k := p.Abs(chk.Res).K
			r := p.Abs(p.Results[0]).K
			if k == px.Unknown || r == px.Unknown || (k == px.True) != (r == px.True) {
				return false, "result differs from the checker's verdict"
			}
			n := p.Count(set)
			if (k == px.True && n != 1) || (k == px.False && n != 0) {
				return false, fmt.Sprintf("overloadTime set ×%d with checker=%v", n, k == px.True)
			}
			return true, ""
		})
	}
	// only systemOverloaded sets overloadTime
	sites := fieldMethodSites(c, loadPkg, "overloadTime", "Set")
	bad := ""
	total := 0
	for fn, n := range sites {
		total += n
		if fn != "systemOverloaded" {
			bad += fn + " "
		}
	}
	o := c.R.Check(bad == "" && total >= 1, rule, "core/load.adaptiveShedder.overloadTime", "overloadTime is set only by systemOverloaded (a drop must not re-arm the cool-off)", "-", "also set in: "+bad, nil, 0)
	o.Sites = total
	// default checker is >=
	if ini := c.P.SSAPkg(loadPkg); ini != nil {
		var chk *ssa.Function
		if initF := ini.Func("init"); initF != nil {
			for _, b := range initF.Blocks {
				for _, ins := range b.Instrs {
					if st, ok := ins.(*ssa.Store); ok {
						if g, ok := st.Addr.(*ssa.Global); ok && g.Name() == "systemOverloadChecker" {
							switch v := st.Val.(type) {
							case *ssa.Function:
								chk = v
							case *ssa.MakeClosure:
								chk = v.Fn.(*ssa.Function)
							}
						}
					}
				}
			}
		}
		if chk == nil {
			c.R.Undecided(rule, "core/load.systemOverloadChecker", "anchor resolves", "initial value of systemOverloadChecker not found")
		} else {
			ps := c.paths(rule, chk, px.Config{})
			c.forall(rule, "core/load.systemOverloadChecker", "overloaded ⇔ CpuUsage() ≥ threshold (at or above)", chk, ps, func(p *px.Path) (bool, string) {
				r := p.Results[0].Strip(false)
				if r.Kind != px.KBinOp {
					return false, "not a comparison"
				}
				x, y, op := r.X, r.Y, r.Op
				if isParam(x, chk.Params[0]) {
					x, y, op = y, x, flip(op)
				}
				if op != token.GEQ || !isCallTo(x, "core/stat.CpuUsage") || !isParam(y, chk.Params[0]) {
					return false, "not CpuUsage() >= threshold: " + r.Describe()
				}
				return true, ""
			})
		}
	}
	c.R.Min(rule, 5, "coolOffDuration, stillHot, systemOverloaded, overloadTime setters, default checker")
}

func c02disabled(c *Ctx) {
	rule := "C02.R6"
	if f := c.fn(rule, loadPkg, "NewAdaptiveShedder"); f != nil {
		ps := c.paths(rule, f, px.Config{MaxVisits: 1})
		n := 0
		c.forall(rule, "core/load.NewAdaptiveShedder", "disabled ⇒ the nop shedder is returned", f, ps, func(p *px.Path) (bool, string) {
			var en *px.Event
			for _, e := range p.All(calleeIs("core/syncx.(*AtomicBool).True")) {
				if e.Call.Recv != nil && e.Call.Recv.Strip(false).Kind == px.KLoad && px.IsGlobalLoad(e.Call.Recv, mod+loadPkg, "enabled") {
					en = e
				}
			}
			if en == nil {
				return false, "the enabled flag is not consulted"
			}
			if p.Abs(en.Res).K == px.False {
				n++
				if p.Exit != px.ExitReturn || !isCallTo(p.Results[0], "core/load.newNopShedder") {
					return false, "disabled but not the nop shedder"
				}
			}
			return true, ""
		})
		c.R.Check(n > 0, rule, "core/load.NewAdaptiveShedder#disabled-path", "a disabled path exists", posOf(c, f), "no path with enabled.True()==false", nil, len(ps))
	}
	if f := c.fn(rule, loadPkg, "newNopShedder"); f != nil {
		ps := c.paths(rule, f, px.Config{})
		c.forall(rule, "core/load.newNopShedder", "returns a nopShedder", f, ps, func(p *px.Path) (bool, string) {
			if typeString(p.Results[0].Strip(false).Typ) != "core/load.nopShedder" {
				return false, "returns " + typeString(p.Results[0].Strip(false).Typ)
			}
			return true, ""
		})
	}
	if f := c.fn(rule, loadPkg, "(nopShedder).Allow"); f != nil {
		ps := c.paths(rule, f, px.Config{})
		c.forall(rule, "core/load.(nopShedder).Allow", "the nop shedder never sheds: (non-nil promise, nil)", f, ps, func(p *px.Path) (bool, string) {
			if len(p.Results) != 2 || !px.IsNilConst(p.Results[1]) || px.IsNilConst(p.Results[0]) {
				return false, "may shed"
			}
			return true, ""
		})
	}
	c.R.Min(rule, 4, "NewAdaptiveShedder(+path), newNopShedder, nopShedder.Allow")
}

func c02users(c *Ctx) {
	rule := "C02.R7"
	allow := func(e *px.Event) bool {
		return e.Kind == px.EvCall && e.Call.Method != nil && e.Call.Method.Name() == "Allow" && e.Call.Method.Pkg() != nil && e.Call.Method.Pkg().Path() == mod+loadPkg
	}
	resolve := func(e *px.Event) bool {
		return e.Kind == px.EvCall && e.Call.Method != nil && (e.Call.Method.Name() == "Pass" || e.Call.Method.Name() == "Fail") && e.Call.Method.Pkg() != nil && e.Call.Method.Pkg().Path() == mod+loadPkg
	}
	type user struct {
		pkg, fn string
		next    px.Pred
		mayP    func(ci *px.CallInfo) bool
	}
	users := []user{
		{"rest/handler", "SheddingHandler",
			func(e *px.Event) bool {
				return e.Kind == px.EvCall && e.Call.Method != nil && e.Call.Method.Name() == "ServeHTTP"
			},
			func(ci *px.CallInfo) bool { return ci.Method != nil && ci.Method.Name() == "ServeHTTP" }},
		{"zrpc/internal/serverinterceptors", "UnarySheddingInterceptor",
			px.DynWhere(func(s *px.Sym) bool {
				return s.Kind == px.KParam && typeString(s.Typ) == "google.golang.org/grpc.UnaryHandler"
			}),
			func(ci *px.CallInfo) bool { return ci.IsDyn() }},
	}
	for _, u := range users {
		f := c.fn(rule, u.pkg, u.fn)
		if f == nil {
			continue
		}
		cl := c.closure(rule, f, "serving closure", func(a *ssa.Function) bool {
			return callsInBody(a, func(cc *ssa.CallCommon) bool { return cc.IsInvoke() && cc.Method.Name() == "Allow" })
		})
		if cl == nil {
			continue
		}
		ps := c.paths(rule, cl, px.Config{MayPanic: u.mayP})
		c.forall(rule, u.pkg+"."+u.fn+"$serve", "shed ⇒ wrapped handler ×0; admitted ⇒ wrapped handler ×1 and the promise resolved exactly once on every exit incl. panic", cl, ps, func(p *px.Path) (bool, string) {
			a := p.First(allow)
			if a == nil || p.Count(allow) != 1 {
				return false, "Allow() not consulted exactly once"
			}
			es := findExtract(p, a.Res, 1)
			if es == nil {
				return false, "Allow()'s error ignored"
			}
			switch p.Abs(es).K {
			case px.NonNil:
				if p.Count(u.next) != 0 {
					return false, "a shed request reaches the handler"
				}
				if p.Count(resolve) != 0 {
					return false, "a shed request resolves a promise"
				}
			case px.Nil:
				if p.Count(u.next) != 1 {
					return false, fmt.Sprintf("handler ×%d", p.Count(u.next))
				}
				if p.Count(resolve) != 1 {
					return false, fmt.Sprintf("promise resolved ×%d (in-flight count leaks or is released twice)", p.Count(resolve))
				}
				r := p.First(resolve)
				if r.Call.Recv.Strip(false) != findExtract(p, a.Res, 0) {
					return false, "another promise is resolved"
				}
				if r.Seq < p.First(u.next).Seq {
					return false, "promise resolved before the handler ran"
				}
			default:
				return false, "Allow()'s error is not tested"
			}
			return true, ""
		})
	}
	c.R.Min(rule, 2, "SheddingHandler, UnarySheddingInterceptor")
}

// c02windowScale: the capacity estimate's scale (buckets per millisecond) is computed in floating point.
func c02windowScale(c *Ctx) {
	rule := "C02.R3"
	f := c.fn(rule, "core/load", "NewAdaptiveShedder")
	if f == nil {
		return
	}
	ps := c.paths(rule, f, px.Config{MaxVisits: 2})
	seen := 0
	held := c.forall(rule, "core/load.NewAdaptiveShedder#windowScale", "windowScale = (one second / bucket duration) / 1000 — buckets per millisecond — with every division carried out in floating point (an integer division of the two durations truncates: any bucket duration that does not divide one second shrinks the capacity estimate, and a bucket longer than a second makes it zero)", f, ps, func(p *px.Path) (bool, string) {
		for _, e := range p.All(px.KindIs(px.EvStore)) {
			if !px.FieldAddrIs(e.Addr, "windowScale", nil) {
				continue
			}
			seen++
			var bad string
			// the bucket duration itself (also the rolling windows' interval) is a leaf
			leaf := map[*px.Sym]bool{}
			for _, ce := range p.All(px.KindIs(px.EvCall)) {
				if ce.Call.Static != nil && strings.HasPrefix(ce.Call.Static.Name(), "NewRollingWindow") {
					for _, a := range ce.Call.Args {
						leaf[a.Strip(true)] = true
					}
				}
			}
			var walk func(s *px.Sym, d int)
			walk = func(s *px.Sym, d int) {
				if s == nil || d > 8 || bad != "" || leaf[s.Strip(true)] {
					return
				}
				if s.Kind == px.KBinOp && s.Op == token.QUO && s.Typ != nil {
					if b, ok := s.Typ.Underlying().(*types.Basic); ok && b.Info()&types.IsFloat == 0 {
						bad = "a division in " + b.Name() + " arithmetic"
					}
				}
				if s.Kind == px.KBinOp || s.Kind == px.KConvert || s.Kind == px.KUnOp {
					walk(s.X, d+1)
					if s.Y != nil {
						walk(s.Y, d+1)
					}
				}
			}
			walk(e.Val, 0)
			if bad != "" {
				return false, "windowScale is computed with " + bad + ": the quotient is truncated before it becomes a float"
			}
			got := anf(p, e.Val, func(s *px.Sym) string {
				if a := p.Abs(s); a.K == px.ConstV {
					return ""
				}
				if s.Kind == px.KBinOp && s.Op == token.QUO {
					// bucketDuration = window / buckets
					return ""
				}
				return ""
			}).String()
			if !strings.Contains(got, "1000000000") || !strings.HasSuffix(got, "/(1000)") {
				return false, "windowScale is not (1s / bucketDuration) / 1000: " + got
			}
		}
		return true, ""
	})
	if held && seen == 0 {
		c.R.Undecided(rule, "core/load.NewAdaptiveShedder#windowScale", "anchor resolves", "no store to windowScale found")
	}
}

// c02siblings: the two rolling windows (pass counts, response times) are built alike, and the in-flight
// moving average is a smoothing convex combination.
func c02siblings(c *Ctx) {
	rule := "C02.R9"
	if f := c.fn(rule, "core/load", "NewAdaptiveShedder"); f != nil {
		ps := c.paths(rule, f, px.Config{MaxVisits: 2})
		c.forall(rule, "core/load.NewAdaptiveShedder#windows", "the pass-count window and the response-time window are built with the same bucket count, the same bucket duration and the same options (both ignore the current, partial bucket): the capacity estimate multiplies a peak pass count by a minimum latency taken over the same buckets", f, ps, func(p *px.Path) (bool, string) {
			if p.Exit != px.ExitReturn {
				return true, ""
			}
			var ws []*px.Event
			for _, e := range p.All(px.KindIs(px.EvCall)) {
				if e.Call.Static != nil && strings.HasPrefix(e.Call.Static.Name(), "NewRollingWindow") {
					ws = append(ws, e)
				}
			}
			if len(ws) == 0 {
				return true, "" // disabled shedder path
			}
			if len(ws) != 2 {
				return false, fmt.Sprintf("%d rolling windows built", len(ws))
			}
			a, b := ws[0].Call.Args, ws[1].Call.Args
			if len(a) != len(b) || len(a) < 4 {
				return false, "windows built with different argument lists"
			}
			if a[1].Strip(true) != b[1].Strip(true) || a[2].Strip(true) != b[2].Strip(true) {
				return false, "the two windows differ in bucket count or bucket duration"
			}
			oa, ob := p.SliceElems(a[3]), p.SliceElems(b[3])
			name := func(s *px.Sym) string {
				s = s.Strip(false)
				if s.Kind == px.KCall && s.Call.Static != nil {
					return strings.SplitN(s.Call.Static.Name(), "[", 2)[0]
				}
				if s.Kind == px.KFunc || s.Kind == px.KClosure {
					return strings.SplitN(s.Fn.Name(), "[", 2)[0]
				}
				return "?" + s.Describe()
			}
			if len(oa) != len(ob) {
				return false, fmt.Sprintf("the windows get %d and %d options: one of them no longer ignores the current partial bucket, so the peak pass count and the minimum latency are taken over different bucket sets (a single fast completion in the current bucket collapses the capacity estimate)", len(oa), len(ob))
			}
			for i := range oa {
				if name(oa[i]) != name(ob[i]) {
					return false, "the windows get different options: " + name(oa[i]) + " vs " + name(ob[i])
				}
			}
			ign := false
			for _, o := range oa {
				if name(o) == "IgnoreCurrentBucket" {
					ign = true
				}
			}
			if !ign {
				return false, "the windows do not ignore the current (partial) bucket"
			}
			return true, ""
		})
	}
	if f := c.fn(rule, "core/load", "(*adaptiveShedder).addFlying"); f != nil {
		ps := c.paths(rule, f, px.Config{})
		seen := 0
		held := c.forall(rule, "core/load.(*adaptiveShedder).addFlying#average", "on completion the in-flight moving average becomes a·avg + b·flying with a + b = 1 and a > b > 0 (a smoothing average dominated by its history — otherwise the 'both the count and its average' test degenerates into one test), under its spin lock", f, ps, func(p *px.Path) (bool, string) {
			for _, e := range p.All(px.KindIs(px.EvStore)) {
				if !px.FieldAddrIs(e.Addr, "avgFlying", nil) {
					continue
				}
				seen++
				poly := anf(p, e.Val, func(s *px.Sym) string {
					if px.IsFieldLoad(s, "avgFlying", nil) {
						return "avg"
					}
					if s.Kind == px.KCall && shortName(s.Call) == "sync/atomic.AddInt64" {
						return "flying"
					}
					return ""
				})
				ca, cf := poly["avg"], poly["flying"]
				if ca == nil || cf == nil || len(poly) != 2 {
					return false, "the new average is not a linear combination of the previous average and the current in-flight count: " + poly.String()
				}
				sum := new(big.Rat).Add(ca, cf)
				if sum.Cmp(big.NewRat(1, 1)) != 0 || cf.Sign() <= 0 || ca.Cmp(cf) <= 0 {
					return false, "the moving average is " + poly.String() + ": the weights must sum to 1 with the history weighted more than the newest sample"
				}
			}
			return true, ""
		})
		if held && seen == 0 {
			c.R.Undecided(rule, "core/load.(*adaptiveShedder).addFlying#average", "anchor resolves", "no store to avgFlying")
		}
	}
}

// c02construct (C02.R6b): an adaptive shedder is only ever built behind the enabled gate. Every
// function of the module that allocates an adaptiveShedder does so on the enabled outcome of
// `enabled.True()`, or is itself only called from such places (an ungated internal constructor
// used by the shedder group hands out real shedders after load.Disable(), seed r3-C02-1).
func c02construct(c *Ctx) {
	rule := "C02.R6"
	isGateCall := func(v ssa.Value) bool {
		call, ok := v.(*ssa.Call)
		if !ok {
			return false
		}
		sc := call.Call.StaticCallee()
		if sc == nil || sc.Name() != "True" || len(call.Call.Args) != 1 {
			return false
		}
		var g *ssa.Global
		if u, ok := call.Call.Args[0].(*ssa.UnOp); ok {
			g, _ = u.X.(*ssa.Global)
		}
		return g != nil && g.Name() == "enabled" && g.Pkg != nil && g.Pkg.Pkg.Path() == mod+loadPkg
	}
	gated := func(b *ssa.BasicBlock) bool {
		for d := b; d != nil; d = d.Idom() {
			idom := d.Idom()
			if idom == nil || len(d.Preds) != 1 || d.Preds[0] != idom || len(idom.Instrs) == 0 {
				continue
			}
			ifi, ok := idom.Instrs[len(idom.Instrs)-1].(*ssa.If)
			if !ok {
				continue
			}
			cond, neg := ifi.Cond, false
			if u, ok := cond.(*ssa.UnOp); ok && u.Op == token.NOT {
				cond, neg = u.X, true
			}
			if isGateCall(cond) && (idom.Succs[0] == d) != neg {
				return true
			}
		}
		return false
	}
	// allocation sites
	type site struct {
		fn  *ssa.Function
		blk *ssa.BasicBlock
		pos token.Pos
	}
	var allocs []site
	for _, pk := range c.P.Pkgs {
		rel := strings.TrimPrefix(pk.PkgPath, mod)
		for _, fn := range c.P.AllFuncs(rel) {
			for _, b := range fn.Blocks {
				for _, ins := range b.Instrs {
					if a, ok := ins.(*ssa.Alloc); ok {
						if pt, ok := a.Type().(*types.Pointer); ok && typeString(pt.Elem()) == loadPkg+".adaptiveShedder" {
							allocs = append(allocs, site{fn, b, a.Pos()})
						}
					}
				}
			}
		}
	}
	callers := func(f *ssa.Function) []site {
		var out []site
		for _, pk := range c.P.Pkgs {
			rel := strings.TrimPrefix(pk.PkgPath, mod)
			for _, fn := range c.P.AllFuncs(rel) {
				for _, b := range fn.Blocks {
					for _, ins := range b.Instrs {
						switch x := ins.(type) {
						case ssa.CallInstruction:
							if x.Common().StaticCallee() == f {
								out = append(out, site{fn, b, ins.Pos()})
							}
							for _, a := range x.Common().Args {
								if a == ssa.Value(f) {
									out = append(out, site{fn, b, ins.Pos()}) // passed as a value: treat as a call here
								}
							}
						case *ssa.Store:
							if x.Val == ssa.Value(f) {
								out = append(out, site{fn, b, ins.Pos()})
							}
						}
					}
				}
			}
		}
		return out
	}
	var bad []string
	var check func(s site, d int, chain string)
	seen := map[*ssa.Function]bool{}
	check = func(s site, d int, chain string) {
		if gated(s.blk) {
			return
		}
		f := s.fn
		for f.Parent() != nil {
			f = f.Parent()
		}
		chain = f.RelString(f.Pkg.Pkg) + chain
		if f.Object() != nil && f.Object().Exported() || d >= 3 {
			bad = append(bad, fmt.Sprintf("%s: an adaptiveShedder is built without consulting the enabled flag (via %s): after load.Disable() this path still hands out a shedder that sheds", c.P.Pos(s.pos), chain))
			return
		}
		if seen[f] {
			return
		}
		seen[f] = true
		cs := callers(f)
		if len(cs) == 0 {
			return // dead code
		}
		for _, cs1 := range cs {
			check(cs1, d+1, " ← "+chain)
		}
	}
	for _, a := range allocs {
		check(a, 0, "")
	}
	sortStrings(bad)
	o := c.R.Check(len(bad) == 0 && len(allocs) >= 1, rule, "core/load.adaptiveShedder#constructed-behind-gate", "every allocation of an adaptiveShedder in the module lies behind the enabled outcome of enabled.True(), in the allocating function or in every caller of it", "-", strings.Join(bad, "; "), bad, len(allocs))
	o.Sites = len(allocs)
}

// c02latency (C02.R10): the latency a finished request contributes to the capacity estimate is its
// duration in milliseconds rounded *up*. The estimate multiplies the peak pass count by the minimum
// average latency; a request quicker than a millisecond that is recorded as 0 (truncation:
// Duration.Milliseconds(), integer division) drives the minimum — and with it the estimate for the
// whole window — to 0, so the shedder drops at 2 requests in flight whatever the real capacity is
// (seed r3-C02-3). Accepted closed forms: ceil(float(d)/float(ms)) and (d + ms − 1)/ms.
func c02latency(c *Ctx) {
	rule := "C02.R10"
	f := c.fn(rule, loadPkg, "(*promise).Pass")
	if f == nil {
		return
	}
	isMs := func(v ssa.Value, want int64) bool {
		for {
			cv, ok := v.(*ssa.Convert)
			if !ok {
				break
			}
			v = cv.X
		}
		k, ok := v.(*ssa.Const)
		if !ok || k.Value == nil {
			return false
		}
		if fv, ok := constant.Float64Val(constant.ToFloat(k.Value)); ok {
			return fv == float64(want)
		}
		return false
	}
	isElapsed := func(v ssa.Value) bool {
		for {
			cv, ok := v.(*ssa.Convert)
			if !ok {
				break
			}
			v = cv.X
		}
		call, ok := v.(*ssa.Call)
		if !ok {
			return false
		}
		n := calleeName(call.Common())
		return strings.HasSuffix(n, "timex.Since") || strings.HasSuffix(n, "time.Since") || strings.HasSuffix(n, ".Sub")
	}
	var roundsUp func(v ssa.Value, d int) (bool, string)
	roundsUp = func(v ssa.Value, d int) (bool, string) {
		if d > 6 {
			return false, "derivation too deep"
		}
		switch x := v.(type) {
		case *ssa.Convert:
			return roundsUp(x.X, d+1)
		case *ssa.Call:
			n := calleeName(x.Common())
			if strings.HasSuffix(n, "math.Ceil") && len(x.Call.Args) == 1 {
				q, ok := x.Call.Args[0].(*ssa.BinOp)
				if ok && q.Op == token.QUO && isElapsed(q.X) && isMs(q.Y, 1e6) {
					if bt, ok := q.Type().Underlying().(*types.Basic); ok && bt.Info()&types.IsFloat != 0 {
						return true, ""
					}
				}
				return false, "math.Ceil is not applied to the floating-point quotient elapsed/millisecond"
			}
			return false, "the recorded value is the result of " + n + ", which does not round a sub-millisecond duration up to 1"
		case *ssa.BinOp:
			if x.Op == token.QUO && isMs(x.Y, 1e6) {
				if add, ok := x.X.(*ssa.BinOp); ok && add.Op == token.ADD {
					if (isElapsed(add.X) && isMs(add.Y, 1e6-1)) || (isElapsed(add.Y) && isMs(add.X, 1e6-1)) {
						return true, ""
					}
				}
				return false, "integer division of the elapsed time by a millisecond truncates: a request quicker than 1ms is recorded as 0"
			}
		}
		return false, "the recorded latency is not the elapsed time rounded up to milliseconds"
	}
	n := 0
	var bad []string
	for _, b := range f.Blocks {
		for _, ins := range b.Instrs {
			call, ok := ins.(ssa.CallInstruction)
			if !ok {
				continue
			}
			cc := call.Common()
			sc := cc.StaticCallee()
			if sc == nil || (sc.Name() != "Add" && !strings.HasPrefix(sc.Name(), "Add[")) || len(cc.Args) != 2 {
				continue
			}
			u, ok := cc.Args[0].(*ssa.UnOp)
			if !ok {
				continue
			}
			fa, ok := u.X.(*ssa.FieldAddr)
			if !ok || fieldNameOf(fa) != "rtCounter" {
				continue
			}
			n++
			if ok, why := roundsUp(cc.Args[1], 0); !ok {
				bad = append(bad, c.P.Pos(ins.Pos())+": "+why)
			}
		}
	}
	c.R.Check(len(bad) == 0 && n == 1, rule, "core/load.(*promise).Pass#latency", "the value added to the latency window is the elapsed time in milliseconds rounded up (never 0 for a request that took time)", posOf(c, f), strings.Join(bad, "; ")+map[bool]string{true: "", false: fmt.Sprintf(" (%d rtCounter.Add sites)", n)}[n == 1], bad, n)
}

// c02setUpFirst (C02.R14, round 8): "a disabled shedder never sheds" — and a service mode disables shedding through
// ServiceConf.SetUp (load.Disable() for the dev/test/rt/pre modes), which only affects shedders built afterwards. In
// every server constructor of the module that calls SetUp, SetUp therefore precedes every call that can build a shedder
// (anything that statically reaches load.NewAdaptiveShedder / NewShedderGroup): a constructor that wires its middlewares
// first keeps a live shedder in a mode that switched shedding off.
func c02setUpFirst(c *Ctx) {
	rule := "C02.R14"
	// functions that can build a shedder
	builds := map[*ssa.Function]bool{}
	var all []*ssa.Function
	for _, pk := range c.P.Pkgs {
		all = append(all, c.P.AllFuncs(strings.TrimPrefix(pk.PkgPath, mod))...)
	}
	callees := func(f *ssa.Function) []*ssa.Function {
		var out []*ssa.Function
		for _, b := range f.Blocks {
			for _, ins := range b.Instrs {
				switch x := ins.(type) {
				case ssa.CallInstruction:
					if cal := x.Common().StaticCallee(); cal != nil {
						out = append(out, cal)
					}
				case *ssa.MakeClosure:
					if fn, ok := x.Fn.(*ssa.Function); ok {
						out = append(out, fn)
					}
				}
			}
		}
		return out
	}
	isCtor := func(f *ssa.Function) bool {
		return f.Pkg != nil && f.Pkg.Pkg.Path() == mod+loadPkg && (f.Name() == "NewAdaptiveShedder" || f.Name() == "NewShedderGroup")
	}
	for changed := true; changed; {
		changed = false
		for _, f := range all {
			if builds[f] {
				continue
			}
			for _, cal := range callees(f) {
				if isCtor(cal) || builds[cal] {
					builds[f] = true
					changed = true
					break
				}
			}
		}
	}
	isSetUp := func(e *px.Event) bool {
		return e.Kind == px.EvCall && e.Call.Static != nil && e.Call.Static.Name() == "SetUp" && strings.Contains(e.Call.Static.String(), "core/service.ServiceConf")
	}
	n := 0
	for _, f := range all {
		if f.Parent() != nil || !builds[f] {
			continue
		}
		if !callsInBody(f, func(cc *ssa.CallCommon) bool {
			cal := cc.StaticCallee()
			return cal != nil && cal.Name() == "SetUp" && strings.Contains(cal.String(), "core/service.ServiceConf")
		}) {
			continue
		}
		n++
		ps := c.paths(rule, f, px.Config{})
		c.forall(rule, funcDisplay(f)+"#setup-first", "ServiceConf.SetUp (which disables shedding for the dev/test/rt/pre modes) precedes every call that can build a shedder", f, ps, func(p *px.Path) (bool, string) {
			su := p.First(isSetUp)
			for i := range p.Events {
				e := &p.Events[i]
				if e.Kind != px.EvCall || e.Call.Static == nil || !(builds[e.Call.Static] || isCtor(e.Call.Static)) {
					continue
				}
				if su == nil || e.Seq < su.Seq {
					if p.Exit == px.ExitReturn || su != nil {
						return false, "shedders can be built by " + funcDisplay(e.Call.Static) + " at " + c.P.Pos(e.Pos) + " before SetUp has run: a server in a mode that disables load shedding keeps a live shedder"
					}
				}
			}
			return true, ""
		})
	}
	c.R.Min(rule, 2, "rest.NewServer, zrpc.NewServer")
}
