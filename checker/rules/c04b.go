package rules

import (
	"fmt"

	"gzverify/px"
)

// c04finalStatus (R3g, round 5): "the caller observes … the work's complete result (for HTTP: its status, headers and
// whole body)". The buffering writer remembers the first status the handler writes and ignores later ones, as net/http
// does — but net/http does not count informational responses (1xx other than 101) as the status. On every path of
// writeHeaderLocked that latches a status (wroteHeader ← true), the code is known not to be informational: for each
// of the sample codes 100, 102, 103, 199 the comparisons made on the code along that path exclude it. Otherwise
// WriteHeader(103); WriteHeader(404) is buffered as 103 and the client receives 200.
func c04finalStatus(c *Ctx) {
	rule := "C04.R3"
	f := c.fn(rule, "rest/handler", "(*timeoutWriter).writeHeaderLocked")
	if f == nil {
		return
	}
	codeP := f.Params[1]
	ps := c.paths(rule, f, px.Config{})
	latches := 0
	held := c.forall(rule, "rest/handler.(*timeoutWriter).writeHeaderLocked#final", "a status is latched as the response's status only when it is not informational (1xx other than 101 Switching Protocols): the final status written after an informational one is the one the client gets", f, ps, func(p *px.Path) (bool, string) {
		latch := false
		for _, e := range p.All(px.KindIs(px.EvStore)) {
			if px.FieldAddrIs(e.Addr, "wroteHeader", nil) && p.Abs(e.Val).K == px.True {
				latch = true
			}
		}
		if !latch {
			return true, ""
		}
		latches++
		cs := p.ParamSym(codeP)
		for _, code := range []int64{100, 102, 103, 199} {
			consistent := true
			for _, b := range p.All(px.KindIs(px.EvBranch)) {
				if !mentions(b.Cond, cs, 0) {
					continue
				}
				v, ok := evalByteCond(p, b.Cond, cs, code)
				if !ok {
					continue // a condition the checker cannot evaluate does not exclude the code
				}
				if v != b.Taken {
					consistent = false
					break
				}
			}
			if consistent {
				return false, fmt.Sprintf("the status is latched on a path that code %d (an informational response) can take: WriteHeader(%d) followed by the final WriteHeader(404) is buffered as %d, the 404 is dropped as superfluous, and the client receives 200 with the handler's body", code, code, code)
			}
		}
		return true, ""
	})
	if held && latches == 0 {
		c.R.Undecided(rule, "rest/handler.(*timeoutWriter).writeHeaderLocked#latch", "the latch of the first status is recognised", "no path stores wroteHeader = true")
	}
}
