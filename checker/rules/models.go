package rules

import (
	"gzverify/px"
)

// stdModel: library summaries shared by the rules. Each is the documented
// behaviour of a helper whose own body is checked by a rule elsewhere
// (rescue.Recover: C05.R4; threading.RunSafe: calls fn once under a deferred Recover).
func stdModel(in *px.Interp, st *px.State, ci *px.CallInfo) *px.Model {
	if ci.Static == nil {
		return nil
	}
	switch shortName(ci) {
	case "core/rescue.Recover":
		if len(ci.Args) == 1 {
			return &px.Model{Invoke: st.SliceElems(ci.Args[0]), Recovers: true}
		}
	case "core/rescue.RecoverCtx":
		if len(ci.Args) == 2 {
			return &px.Model{Invoke: st.SliceElems(ci.Args[1]), Recovers: true}
		}
	case "core/threading.RunSafe":
		if len(ci.Args) == 1 {
			return &px.Model{Invoke: []*px.Sym{ci.Args[0]}}
		}
	case "sync.(*Once).Do":
		if len(ci.Args) == 2 {
			return &px.Model{Invoke: []*px.Sym{ci.Args[1]}, Maybe: true}
		}
	}
	return nil
}

// goSafeModel: threading.GoSafe(fn) runs fn (in a new goroutine, under a recover).
func goSafeModel(in *px.Interp, st *px.State, ci *px.CallInfo) *px.Model {
	if ci.Static != nil && shortName(ci) == "core/threading.GoSafe" && len(ci.Args) == 1 {
		return &px.Model{Invoke: []*px.Sym{ci.Args[0]}}
	}
	return nil
}

func models(ms ...func(in *px.Interp, st *px.State, ci *px.CallInfo) *px.Model) func(in *px.Interp, st *px.State, ci *px.CallInfo) *px.Model {
	return func(in *px.Interp, st *px.State, ci *px.CallInfo) *px.Model {
		for _, m := range ms {
			if r := m(in, st, ci); r != nil {
				return r
			}
		}
		return nil
	}
}

// chanKey names the variable or field a channel (or other shared object) value
// comes from, so that a closure's view ("captured pool") and its parent's view
// ("local pool") can be related: "field:limitChan", "var:pool".
func chanKey(p *px.Path, s *px.Sym) string {
	s = s.Strip(false)
	if s == nil {
		return ""
	}
	switch s.Kind {
	case px.KLoad:
		if s.X == nil {
			return ""
		}
		switch s.X.Kind {
		case px.KFreeVar:
			return "var:" + s.X.V.Name()
		case px.KFieldAddr:
			_, f, _ := s.X.FieldAddrOf()
			return "field:" + f
		case px.KAlloc:
			return "var:" + allocName(s.X)
		}
	case px.KFreeVar:
		return "var:" + s.V.Name()
	case px.KField:
		if v := s.FieldVar(); v != nil {
			return "field:" + v.Name()
		}
	case px.KFieldAddr:
		_, f, _ := s.FieldAddrOf()
		return "field:" + f
	case px.KAlloc:
		return "var:" + allocName(s)
	}
	// a value stored into a named local cell on this path
	for i := range p.Events {
		e := &p.Events[i]
		if e.Kind == px.EvStore && e.Val.Strip(false) == s && e.Addr.Kind == px.KAlloc {
			if n := allocName(e.Addr); n != "" {
				return "var:" + n
			}
		}
	}
	if s.V != nil && s.V.Name() != "" {
		// SSA registers of non-escaping locals have no source name; use debug-free fallback
		return "val:" + s.V.Name()
	}
	return ""
}
