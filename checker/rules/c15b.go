package rules

import (
	"fmt"
	"sort"
	"strings"

	"golang.org/x/tools/go/ssa"

	"go/types"
	"gzverify/px"
)

// c15users (R6, round 4): the in-tree plumbing that turns configured weights into virtual nodes keeps the ring's
// locality. At every call of AddWithWeight / AddWithReplicas outside core/hash the weight (replica count) of a
// node is a function of *that node's* configuration alone: its derivation contains no value accumulated over
// the other nodes (a loop-carried maximum, sum or count). "Re-adding a node with a different weight only moves
// keys to or from that node" is a statement about configurations; if every node's replica count is rescaled
// against the heaviest node, changing one weight changes the virtual nodes of all the others and keys move
// between nodes nobody touched (seed r4-C15-2).
func c15users(c *Ctx) {
	rule := "C15.R6"
	sites := 0
	var bad []string
	for _, pk := range c.P.Pkgs {
		rel := strings.TrimPrefix(pk.PkgPath, mod)
		if rel == hashPkg {
			continue
		}
		for _, f := range c.P.AllFuncs(rel) {
			for _, b := range f.Blocks {
				for _, ins := range b.Instrs {
					call, ok := ins.(ssa.CallInstruction)
					if !ok {
						continue
					}
					sc := call.Common().StaticCallee()
					if sc == nil || sc.Pkg == nil || sc.Pkg.Pkg.Path() != mod+hashPkg || (sc.Name() != "AddWithWeight" && sc.Name() != "AddWithReplicas") {
						continue
					}
					sites++
					w := call.Common().Args[len(call.Common().Args)-1]
					seen := map[ssa.Value]bool{}
					var walk func(v ssa.Value) string
					walk = func(v ssa.Value) string {
						if v == nil || seen[v] {
							return ""
						}
						seen[v] = true
						switch x := v.(type) {
						case *ssa.Phi:
							return fmt.Sprintf("a value merged across loop iterations (%s at %s)", x.Comment, c.P.Pos(x.Pos()))
						case *ssa.IndexAddr:
							return walk(x.X) // the element of the configuration being added; the index is the loop's own counter
						case *ssa.Index:
							return walk(x.X)
						case *ssa.Extract:
							if _, ok := x.Tuple.(*ssa.Next); ok {
								return ""
							}
							return walk(x.Tuple)
						case *ssa.UnOp:
							if al, ok := x.X.(*ssa.Alloc); ok {
								for _, r := range *al.Referrers() {
									if st, ok := r.(*ssa.Store); ok && st.Addr == al {
										if why := walk(st.Val); why != "" {
											return why
										}
									}
								}
								return ""
							}
							return walk(x.X)
						case *ssa.Parameter, *ssa.Const, *ssa.Global, *ssa.FreeVar, *ssa.Alloc:
							return ""
						case *ssa.Call:
							// (round 9) a value computed by a helper over the whole configuration (the heaviest weight, the total …)
							for _, a := range x.Call.Args {
								switch a.Type().Underlying().(type) {
								case *types.Slice, *types.Map, *types.Array:
									return fmt.Sprintf("the result of %s applied to the whole node list (at %s)", calleeName(x.Common()), c.P.Pos(x.Pos()))
								}
							}
						}
						if i, ok := v.(ssa.Instruction); ok {
							for _, op := range i.Operands(nil) {
								if *op != nil {
									if why := walk(*op); why != "" {
										return why
									}
								}
							}
						}
						return ""
					}
					if why := walk(w); why != "" {
						bad = append(bad, fmt.Sprintf("%s: %s passes %s a weight that depends on %s — on the other nodes of the configuration, not only on the node being added", c.P.Pos(ins.Pos()), funcDisplay(f), sc.Name(), why))
					}
				}
			}
		}
	}
	sort.Strings(bad)
	c.R.Check(len(bad) == 0, rule, "users of ConsistentHash.AddWithWeight/AddWithReplicas", "the weight handed to the ring for a node derives from that node's own configuration (no value accumulated over the other nodes): changing one node's weight leaves every other node's virtual nodes in place", "-", strings.Join(bad, "; "), bad, sites)
	if sites < 2 {
		c.R.Undecided(rule, "users#sites", "the in-tree users (cache.New, kv.NewStore) are recognised", fmt.Sprintf("%d call sites", sites))
	}
}

// c15pureHash (R7, round 5): "the mapping depends only on the node set" — across processes and restarts too, since
// every instance of a service must route a key to the same cache node. The default hash function is a pure
// function of its input: its result derives from the data parameter and constants only — no package-level variable
// (a per-process random seed), no clock, no random source (seed r5-C15-2).
func c15pureHash(c *Ctx) {
	rule := "C15.R7"
	f := c.fn(rule, hashPkg, "Hash")
	if f == nil {
		return
	}
	var bad []string
	seen := map[ssa.Value]bool{}
	var walk func(v ssa.Value)
	walk = func(v ssa.Value) {
		if v == nil || seen[v] {
			return
		}
		seen[v] = true
		switch x := v.(type) {
		case *ssa.Parameter, *ssa.Const, *ssa.Function, *ssa.Builtin:
			return
		case *ssa.Global:
			bad = append(bad, fmt.Sprintf("the hash depends on package-level variable %s (state that differs between processes makes two instances route one key to different nodes)", x.Name()))
			return
		case *ssa.Call:
			if sc := x.Call.StaticCallee(); sc != nil && sc.Pkg != nil {
				switch p := sc.Pkg.Pkg.Path(); {
				case p == "math/rand" || p == "math/rand/v2" || p == "crypto/rand" || p == "time" || p == "os" || p == "hash/maphash":
					bad = append(bad, "the hash depends on "+p+"."+sc.Name())
				}
			}
		}
		if ins, ok := v.(ssa.Instruction); ok {
			for _, op := range ins.Operands(nil) {
				if *op != nil {
					walk(*op)
				}
			}
		}
	}
	n := 0
	for _, b := range f.Blocks {
		for _, ins := range b.Instrs {
			if r, ok := ins.(*ssa.Return); ok {
				n++
				for _, res := range r.Results {
					walk(res)
				}
			}
		}
	}
	sort.Strings(bad)
	c.R.Check(len(bad) == 0 && n > 0, rule, hashPkg+".Hash#pure", "the ring's default hash is a pure function of its input (derives from the data and constants only): the key→node mapping is the same in every process", posOf(c, f), strings.Join(bad, "; "), bad, n)
	// and it is the default of the ring
	if g := c.fn(rule, hashPkg, "NewCustomConsistentHash"); g != nil {
		uses := false
		for _, b := range g.Blocks {
			for _, ins := range b.Instrs {
				for _, op := range ins.Operands(nil) {
					if fn, ok := (*op).(*ssa.Function); ok && fn == f {
						uses = true
					}
				}
			}
		}
		c.R.Check(uses, rule, hashPkg+".NewCustomConsistentHash#default", "a ring built without a hash function uses hash.Hash", posOf(c, g), "the default hash function is not hash.Hash: its purity is not checked", nil, 1)
	}
}

// c15injectiveNames (R8, round 5): two different (node, replica) pairs get different virtual-node names. The name is
// the concatenation of two variable-length strings — the node's representation and the decimal replica index — so a
// non-empty constant must stand between them: without one, "h:1"+"10" and "h:11"+"0" are the same name, nodes whose
// representations are prefix-related share virtual nodes, the owner of a shared slot depends on insertion order, and
// removing one node deletes virtual nodes of the other ("removing a node only moves keys that were on it" fails).
func c15injectiveNames(c *Ctx) {
	rule := "C15.R8"
	f := c.fn(rule, hashPkg, "(*ConsistentHash).AddWithReplicas")
	if f == nil {
		return
	}
	ps := c.paths(rule, f, px.Config{MaxVisits: 2})
	isRepr := func(s *px.Sym) bool {
		s = s.Strip(false)
		return s != nil && s.Kind == px.KCall && s.Call != nil && s.Call.Static != nil && s.Call.Static.Name() == "repr"
	}
	seen := 0
	c.forall(rule, hashPkg+".(*ConsistentHash).AddWithReplicas#names", "the name a virtual node is hashed from separates the node's representation from the replica index by a non-empty constant (the encoding of (node, replica) is injective)", f, ps, func(p *px.Path) (bool, string) {
		for i := range p.Events {
			if _, sep, ok := c15vnodeName(p, &p.Events[i], isRepr); ok {
				seen++
				if !sep {
					return false, "the virtual-node name is repr(node) immediately followed by the replica index: \"h:1\"+\"10\" and \"h:11\"+\"0\" are the same name, so prefix-related nodes share virtual nodes — the slot's owner depends on insertion order, and Remove(\"h:1\") walks indices 10…19 and deletes virtual nodes of \"h:11\""
				}
			}
		}
		return true, ""
	})
	if seen == 0 {
		c.R.Undecided(rule, hashPkg+".(*ConsistentHash).AddWithReplicas#names-seen", "the virtual-node name derivation is recognised", "no hashFunc(repr+index) call on any path")
	}
}

// c15ringIdentity (C15.R9, round 8): the ring places a node by lang.Repr(node) — its String() when it has one, else
// fmt's rendering of the value. "The mapping depends only on the set of nodes" therefore needs, for everything in-tree
// code adds to a ConsistentHash: (a) the value, in the form it is added (value or pointer), is a fmt.Stringer — a struct
// without one is rendered with the addresses of the pointers inside it, different in every process; (b) what its String()
// reads is configuration: the fields it returns are written only where the object is built (a composite literal of the
// type), never updated afterwards — an identity that changes after Add makes Remove and re-weighting miss the node.
func c15ringIdentity(c *Ctx) {
	rule := "C15.R9"
	stringer := types.NewInterfaceType([]*types.Func{types.NewFunc(0, nil, "String", types.NewSignatureType(nil, nil, nil, nil, types.NewTuple(types.NewVar(0, nil, "", types.Typ[types.String])), false))}, nil)
	stringer.Complete()
	// dynamic types of a value handed to Add…: through boxing, and one level through the results of module functions
	var dynTypes func(v ssa.Value, d int) []types.Type
	dynTypes = func(v ssa.Value, d int) []types.Type {
		switch x := v.(type) {
		case *ssa.MakeInterface:
			return []types.Type{x.X.Type()}
		case *ssa.ChangeInterface:
			return dynTypes(x.X, d)
		case *ssa.Phi:
			var out []types.Type
			for _, e := range x.Edges {
				out = append(out, dynTypes(e, d)...)
			}
			return out
		case *ssa.Call:
			cal := x.Call.StaticCallee()
			if cal == nil || cal.Blocks == nil || d > 2 {
				return nil
			}
			var out []types.Type
			for _, b := range cal.Blocks {
				if len(b.Instrs) == 0 {
					continue
				}
				if r, ok := b.Instrs[len(b.Instrs)-1].(*ssa.Return); ok && len(r.Results) >= 1 {
					out = append(out, dynTypes(r.Results[0], d+1)...)
				}
			}
			return out
		}
		if _, isIface := v.Type().Underlying().(*types.Interface); !isIface {
			return []types.Type{v.Type()}
		}
		return nil
	}
	sites := 0
	seen := map[string]bool{}
	for _, pk := range c.P.Pkgs {
		rel := strings.TrimPrefix(pk.PkgPath, mod)
		if rel == "core/hash" {
			continue
		}
		for _, fn := range c.P.AllFuncs(rel) {
			for _, b := range fn.Blocks {
				for _, ins := range b.Instrs {
					call, ok := ins.(ssa.CallInstruction)
					if !ok {
						continue
					}
					cal := call.Common().StaticCallee()
					if cal == nil || cal.Signature.Recv() == nil || !strings.HasSuffix(typeString(cal.Signature.Recv().Type()), "core/hash.ConsistentHash") || !strings.HasPrefix(cal.Name(), "Add") || len(call.Common().Args) < 2 {
						continue
					}
					sites++
					ts := dynTypes(call.Common().Args[1], 0)
					if len(ts) == 0 {
						c.R.Undecided(rule, funcDisplay(fn)+"#ring-member", "the dynamic type of what is added to the ring is resolved", "unresolved at "+c.P.Pos(call.Pos()))
						continue
					}
					for _, t := range ts {
						key := typeString(t)
						if seen[key] {
							continue
						}
						seen[key] = true
						name := "ring member " + key
						text := "what in-tree code adds to a ConsistentHash is a fmt.Stringer in the form it is added, and the fields its String() returns are written only where the object is built"
						if b, isBasic := t.Underlying().(*types.Basic); isBasic && b.Info()&(types.IsString|types.IsNumeric) != 0 {
							c.R.Hold(rule, name, text+" (a basic value is its own identity)", 1)
							continue
						}
						if !types.Implements(t, stringer) {
							c.R.Fail(rule, name, text, c.P.Pos(call.Pos()), "added in "+funcDisplay(fn)+" as "+key+", which has no String() in that form: lang.Repr falls back to fmt's rendering of the value, which prints the addresses of the pointers inside it — two processes (or two rings) built from the same configuration place the node differently", nil)
							continue
						}
						// (b) the fields String() reads
						ms := types.NewMethodSet(t)
						sel := ms.Lookup(nil, "String")
						if sel == nil {
							for i := 0; i < ms.Len(); i++ {
								if ms.At(i).Obj().Name() == "String" {
									sel = ms.At(i)
								}
							}
						}
						var strFn *ssa.Function
						if sel != nil {
							strFn = c.P.SSA.MethodValue(sel)
						}
						if strFn == nil || strFn.Blocks == nil {
							c.R.Undecided(rule, name, text, "String() body not available")
							continue
						}
						fields := map[*types.Var]bool{}
						var collect func(f *ssa.Function, d int)
						collect = func(f *ssa.Function, d int) {
							for _, bb := range f.Blocks {
								for _, in := range bb.Instrs {
									switch y := in.(type) {
									case *ssa.FieldAddr:
										if pt, ok := y.X.Type().Underlying().(*types.Pointer); ok {
											if st, ok := pt.Elem().Underlying().(*types.Struct); ok {
												fields[st.Field(y.Field)] = true
											}
										}
									case *ssa.Field:
										if st, ok := y.X.Type().Underlying().(*types.Struct); ok {
											fields[st.Field(y.Field)] = true
										}
									}
								}
							}
						}
						collect(strFn, 0)
						var writers []string
						for _, pk2 := range c.P.Pkgs {
							rel2 := strings.TrimPrefix(pk2.PkgPath, mod)
							for _, g := range c.P.AllFuncs(rel2) {
								for _, bb := range g.Blocks {
									for _, in := range bb.Instrs {
										st, ok := in.(*ssa.Store)
										if !ok {
											continue
										}
										fa, ok := st.Addr.(*ssa.FieldAddr)
										if !ok {
											continue
										}
										pt, ok := fa.X.Type().Underlying().(*types.Pointer)
										if !ok {
											continue
										}
										stt, ok := pt.Elem().Underlying().(*types.Struct)
										if !ok || !fields[stt.Field(fa.Field)] {
											continue
										}
										// building the object: the store goes into a fresh allocation of this function (composite literal)
										if al, isAlloc := fa.X.(*ssa.Alloc); isAlloc && al.Parent() == g {
											continue
										}
										writers = append(writers, fmt.Sprintf("%s writes %s at %s", funcDisplay(g), stt.Field(fa.Field).Name(), c.P.Pos(st.Pos())))
									}
								}
							}
						}
						sort.Strings(writers)
						if len(writers) > 0 {
							c.R.Fail(rule, name, text, c.P.Pos(strFn.Pos()), "the identity String() returns is updated after the object was built: "+strings.Join(writers, "; ")+" — a node added before that write is placed under one name and looked for (Remove, re-weighting) under another", writers)
							continue
						}
						c.R.Hold(rule, name, text, len(fields)+1)
					}
				}
			}
		}
	}
	if sites < 2 {
		c.R.Undecided(rule, "module#ring-users", "the in-tree users of ConsistentHash.Add… are recognised", fmt.Sprintf("%d found", sites))
	}
}
