package main

import (
	_ "github.com/yuin/gopher-lua/parse"
	_ "golang.org/x/tools/go/callgraph/vta"
	_ "golang.org/x/tools/go/packages"
	_ "golang.org/x/tools/go/ssa/ssautil"
)

func main() {}
