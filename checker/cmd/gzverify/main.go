package main

import (
	"flag"
	"fmt"
	"os"
	"sort"
	"strings"

	"gzverify/load"
	"gzverify/px"
	"gzverify/rules"
)

func main() {
	prop := flag.String("prop", "", "property id (C01..C20)")
	tier := flag.String("tier", "quick", "quick|thorough")
	verbose := flag.Bool("v", false, "verbose")
	only := flag.String("only", "", "print only this obligation id")
	dump := flag.String("dump", "", "debug: pkg:func — print the paths of a function")
	warm := flag.Bool("warm", false, "load everything once (warms the go build cache)")
	genBaseline := flag.Bool("gen-baseline", false, "write checker/rules/baseline_funcs_gen.go from the current tree (development only)")
	selftest := flag.String("selftest", "", "run the mutant catalogue of a property (or 'all') against the checker, in memory")
	sweep := flag.String("sweep", "", "development: mutants.json to apply in memory (with -sweep-out, -from, -to)")
	sweepOut := flag.String("sweep-out", "", "development: result file of -sweep")
	from := flag.Int("from", 0, "development: first mutant of -sweep")
	to := flag.Int("to", 0, "development: last mutant (exclusive) of -sweep")
	flag.Parse()
	if *sweep != "" {
		if err := rules.Sweep(*sweep, *sweepOut, *from, *to); err != nil {
			fmt.Println("sweep:", err)
			os.Exit(1)
		}
		return
	}
	if t := os.Getenv("VERIF_TIER"); t != "" && *tier == "" {
		*tier = t
	}
	if *warm {
		p, err := load.Load(load.Options{})
		if err != nil {
			fmt.Println("warm:", err)
			os.Exit(1)
		}
		fmt.Printf("warm: %d packages, %d errors\n", len(p.Pkgs), len(p.Errors))
		return
	}
	if *genBaseline {
		rules.GenBaseline()
		return
	}
	if *selftest != "" {
		res := rules.SelfTest(*selftest, true)
		fmt.Printf("selftest %s: %d mutants, %d killed, %d survived, %d stale; %d benign refactorings, %d raised an alarm\n", *selftest, res.Total, res.Killed, len(res.Survived), len(res.Stale), res.Benign, len(res.FalseAlarms))
		for _, s := range res.FalseAlarms {
			fmt.Println("  FALSE ALARM:", s)
		}
		for _, s := range res.Stale {
			fmt.Println("  stale:", s)
		}
		if len(res.Survived) > 0 {
			os.Exit(1)
		}
		return
	}
	if *dump != "" {
		doDump(*dump)
		return
	}
	if *prop == "" {
		fmt.Println("usage: gzverify -prop Cxx -tier quick|thorough")
		os.Exit(2)
	}
	os.Exit(rules.Run(*prop, *tier, *verbose, *only))
}

func doDump(spec string) {
	i := strings.Index(spec, ":")
	pkg, fn := spec[:i], spec[i+1:]
	p, err := load.Load(load.Options{})
	if err != nil {
		fmt.Println(err)
		os.Exit(1)
	}
	if len(p.Errors) > 0 {
		fmt.Println(p.Errors)
	}
	px.Debug = true
	closure := ""
	if j := strings.Index(fn, "$"); j >= 0 {
		closure = fn[j:]
		fn = fn[:j]
	}
	f := p.Func(pkg, fn)
	if f == nil {
		fmt.Println("no such function")
		os.Exit(1)
	}
	if closure != "" {
		for _, a := range f.AnonFuncs {
			if strings.HasSuffix(a.Name(), closure) {
				f = a
			}
		}
	}
	paths, in, err := px.Run(px.Config{Prog: p.SSA, InlineGo: os.Getenv("GZV_INLINEGO") != "", MayPanic: func(ci *px.CallInfo) bool { return ci.IsDyn() }}, f)
	fmt.Printf("%s: %d paths, err=%v stats=%+v\n", f, len(paths), err, in.Stats)
	sort.SliceStable(paths, func(i, j int) bool { return len(paths[i].Events) < len(paths[j].Events) })
	for k, pa := range paths {
		fmt.Printf("--- path %d\n", k)
		for _, l := range pa.Trace(p.Pos, 0) {
			fmt.Println("   ", l)
		}
	}
}
