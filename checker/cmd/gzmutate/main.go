// gzmutate generates first-order syntactic mutants of go-zero source files (development tool:
// it measures the checker, it decides nothing). Output: JSON list of
// {id, file, start, end, new, kind, func, line, old}. Offsets are byte offsets into the file.
//
//	gzmutate -repo /repo file1.go file2.go … > mutants.json
package main

import (
	"encoding/json"
	"flag"
	"fmt"
	"go/ast"
	"go/parser"
	"go/token"
	"os"
	"path/filepath"
	"strconv"
	"strings"
)

type Mut struct {
	ID    string `json:"id"`
	File  string `json:"file"`
	Start int    `json:"start"`
	End   int    `json:"end"`
	New   string `json:"new"`
	Kind  string `json:"kind"`
	Func  string `json:"func"`
	Line  int    `json:"line"`
	Old   string `json:"old"`
}

var out []Mut

func main() {
	repo := flag.String("repo", "/repo", "repository root")
	flag.Parse()
	for _, rel := range flag.Args() {
		if strings.HasSuffix(rel, ".go") {
			mutateFile(*repo, rel)
		}
	}
	b, _ := json.MarshalIndent(out, "", " ")
	os.Stdout.Write(b)
}

func mutateFile(repo, rel string) {
	path := filepath.Join(repo, rel)
	src, err := os.ReadFile(path)
	if err != nil {
		fmt.Fprintln(os.Stderr, err)
		return
	}
	fset := token.NewFileSet()
	f, err := parser.ParseFile(fset, path, src, parser.ParseComments)
	if err != nil {
		fmt.Fprintln(os.Stderr, err)
		return
	}
	off := func(p token.Pos) int { return fset.Position(p).Offset }
	n := 0
	add := func(fn string, kind string, s, e token.Pos, repl string) {
		so, eo := off(s), off(e)
		if so < 0 || eo > len(src) || so > eo {
			return
		}
		old := string(src[so:eo])
		if old == repl {
			return
		}
		n++
		if len(old) > 120 {
			old = old[:120] + "…"
		}
		out = append(out, Mut{ID: fmt.Sprintf("%s#%d", rel, n), File: rel, Start: so, End: eo, New: repl, Kind: kind, Func: fn, Line: fset.Position(s).Line, Old: old})
	}
	for _, d := range f.Decls {
		fd, ok := d.(*ast.FuncDecl)
		if !ok || fd.Body == nil {
			continue
		}
		name := fd.Name.Name
		if fd.Recv != nil && len(fd.Recv.List) > 0 {
			name = recvName(fd.Recv.List[0].Type) + "." + name
		}
		hasErrResult := false
		nres := 0
		if fd.Type.Results != nil {
			for _, r := range fd.Type.Results.List {
				k := len(r.Names)
				if k == 0 {
					k = 1
				}
				nres += k
			}
			last := fd.Type.Results.List[len(fd.Type.Results.List)-1]
			if id, ok := last.Type.(*ast.Ident); ok && id.Name == "error" {
				hasErrResult = true
			}
		}
		var stack []ast.Node
		ast.Inspect(fd.Body, func(nd ast.Node) bool {
			if nd == nil {
				stack = stack[:len(stack)-1]
				return true
			}
			var parent ast.Node
			if len(stack) > 0 {
				parent = stack[len(stack)-1]
			}
			stack = append(stack, nd)
			switch x := nd.(type) {
			case *ast.FuncLit:
				// results of closures: handle returns by their own signature
			case *ast.BinaryExpr:
				opS, opE := x.OpPos, x.OpPos+token.Pos(len(x.Op.String()))
				switch x.Op {
				case token.LSS:
					add(name, "rel", opS, opE, "<=")
					add(name, "rel", opS, opE, ">=")
				case token.LEQ:
					add(name, "rel", opS, opE, "<")
					add(name, "rel", opS, opE, ">")
				case token.GTR:
					add(name, "rel", opS, opE, ">=")
					add(name, "rel", opS, opE, "<=")
				case token.GEQ:
					add(name, "rel", opS, opE, ">")
					add(name, "rel", opS, opE, "<")
				case token.EQL:
					add(name, "rel", opS, opE, "!=")
				case token.NEQ:
					add(name, "rel", opS, opE, "==")
				case token.LAND:
					add(name, "logic", opS, opE, "||")
					add(name, "logic-left", x.Pos(), x.End(), string(src[off(x.X.Pos()):off(x.X.End())]))
					add(name, "logic-right", x.Pos(), x.End(), string(src[off(x.Y.Pos()):off(x.Y.End())]))
				case token.LOR:
					add(name, "logic", opS, opE, "&&")
					add(name, "logic-left", x.Pos(), x.End(), string(src[off(x.X.Pos()):off(x.X.End())]))
					add(name, "logic-right", x.Pos(), x.End(), string(src[off(x.Y.Pos()):off(x.Y.End())]))
				case token.ADD:
					if !isStringy(x) {
						add(name, "arith", opS, opE, "-")
					}
				case token.SUB:
					add(name, "arith", opS, opE, "+")
				case token.MUL:
					add(name, "arith", opS, opE, "/")
				case token.QUO:
					add(name, "arith", opS, opE, "*")
				case token.REM:
					add(name, "arith", opS, opE, "/")
				}
			case *ast.IfStmt:
				c := string(src[off(x.Cond.Pos()):off(x.Cond.End())])
				add(name, "if-neg", x.Cond.Pos(), x.Cond.End(), "!("+c+")")
				add(name, "if-true", x.Cond.Pos(), x.Cond.End(), "true || ("+c+")")
				add(name, "if-false", x.Cond.Pos(), x.Cond.End(), "false && ("+c+")")
			case *ast.UnaryExpr:
				if x.Op == token.NOT {
					add(name, "not-drop", x.Pos(), x.X.Pos(), "")
				}
			case *ast.ExprStmt:
				if _, ok := parent.(*ast.BlockStmt); ok || isClause(parent) {
					if _, isCall := x.X.(*ast.CallExpr); isCall {
						add(name, "del-call", x.Pos(), x.End(), "{}")
					} else if u, ok := x.X.(*ast.UnaryExpr); ok && u.Op == token.ARROW {
						add(name, "del-recv", x.Pos(), x.End(), "{}")
					}
				}
			case *ast.AssignStmt:
				if x.Tok != token.DEFINE {
					if _, ok := parent.(*ast.BlockStmt); ok || isClause(parent) {
						add(name, "del-assign", x.Pos(), x.End(), "{}")
					}
					switch x.Tok {
					case token.ADD_ASSIGN:
						add(name, "arith", x.TokPos, x.TokPos+2, "-=")
					case token.SUB_ASSIGN:
						add(name, "arith", x.TokPos, x.TokPos+2, "+=")
					}
				}
			case *ast.IncDecStmt:
				if _, ok := parent.(*ast.BlockStmt); ok || isClause(parent) {
					add(name, "del-incdec", x.Pos(), x.End(), "{}")
				}
				if x.Tok == token.INC {
					add(name, "incdec", x.TokPos, x.TokPos+2, "--")
				} else {
					add(name, "incdec", x.TokPos, x.TokPos+2, "++")
				}
			case *ast.DeferStmt:
				add(name, "del-defer", x.Pos(), x.End(), "{}")
				add(name, "undefer", x.Pos(), x.Call.Pos(), "")
			case *ast.GoStmt:
				add(name, "ungo", x.Pos(), x.Call.Pos(), "")
			case *ast.SendStmt:
				add(name, "del-send", x.Pos(), x.End(), "{}")
			case *ast.BranchStmt:
				if x.Label == nil && (x.Tok == token.BREAK || x.Tok == token.CONTINUE) {
					if x.Tok == token.BREAK {
						add(name, "branch", x.Pos(), x.End(), "continue")
					} else {
						add(name, "branch", x.Pos(), x.End(), "break")
					}
				}
			case *ast.ReturnStmt:
				// inside a closure the enclosing FuncLit's signature applies
				inLit := false
				for i := len(stack) - 2; i >= 0; i-- {
					if _, ok := stack[i].(*ast.FuncLit); ok {
						inLit = true
						break
					}
				}
				if !inLit && hasErrResult && len(x.Results) == nres && nres > 0 {
					last := x.Results[len(x.Results)-1]
					if id, ok := last.(*ast.Ident); !ok || id.Name != "nil" {
						add(name, "ret-nil-err", last.Pos(), last.End(), "nil")
					}
				}
				for _, r := range x.Results {
					if id, ok := r.(*ast.Ident); ok && (id.Name == "true" || id.Name == "false") {
						add(name, "ret-bool", id.Pos(), id.End(), map[string]string{"true": "false", "false": "true"}[id.Name])
					}
				}
			case *ast.BasicLit:
				if x.Kind == token.INT {
					if v, err := strconv.ParseInt(x.Value, 0, 64); err == nil {
						if _, isIdx := parent.(*ast.IndexExpr); !isIdx {
							add(name, "const", x.Pos(), x.End(), strconv.FormatInt(v+1, 10))
							if v > 0 {
								add(name, "const", x.Pos(), x.End(), strconv.FormatInt(v-1, 10))
							}
						}
					}
				}
			case *ast.Ident:
				if x.Name == "true" || x.Name == "false" {
					if _, isRet := parent.(*ast.ReturnStmt); !isRet {
						add(name, "bool", x.Pos(), x.End(), map[string]string{"true": "false", "false": "true"}[x.Name])
					}
				}
			case *ast.CallExpr:
				// Lock <-> RLock, swap of two same-named-type args is not attempted
				if sel, ok := x.Fun.(*ast.SelectorExpr); ok && len(x.Args) == 0 {
					switch sel.Sel.Name {
					case "Lock":
						// only meaningful on RWMutex; compile filter removes the rest
						add(name, "lock-kind", sel.Sel.Pos(), sel.Sel.End(), "RLock")
					case "Unlock":
						add(name, "lock-kind", sel.Sel.Pos(), sel.Sel.End(), "RUnlock")
					}
				}
			}
			return true
		})
	}
}

func isClause(n ast.Node) bool {
	switch n.(type) {
	case *ast.CaseClause, *ast.CommClause:
		return true
	}
	return false
}

func isStringy(x *ast.BinaryExpr) bool {
	var has func(e ast.Expr) bool
	has = func(e ast.Expr) bool {
		switch v := e.(type) {
		case *ast.BasicLit:
			return v.Kind == token.STRING || v.Kind == token.CHAR
		case *ast.BinaryExpr:
			return has(v.X) || has(v.Y)
		case *ast.ParenExpr:
			return has(v.X)
		}
		return false
	}
	return has(x)
}

func recvName(e ast.Expr) string {
	switch v := e.(type) {
	case *ast.StarExpr:
		return "(*" + recvName(v.X)[0:] + ")"
	case *ast.Ident:
		return v.Name
	case *ast.IndexExpr:
		return recvName(v.X)
	case *ast.IndexListExpr:
		return recvName(v.X)
	}
	return "?"
}
