// Package rep holds the obligation model, the verdict and the evidence writer.
package rep

import (
	"encoding/json"
	"fmt"
	"os"
	"path/filepath"
	"sort"
	"strings"
	"time"
)

type Status string

const (
	Holds     Status = "HOLDS"
	Violated  Status = "VIOLATED"
	Known     Status = "KNOWN"
	Undecided Status = "UNDECIDED"
)

// Obligation is one rule instance bound to one construct.
type Obligation struct {
	ID        string   `json:"id"`        // stable key: rule + construct (never a line number)
	Rule      string   `json:"rule"`      // e.g. C14.R2
	Text      string   `json:"text"`      // the rule in words
	Construct string   `json:"construct"` // pkg.Func / role
	Pos       string   `json:"pos,omitempty"`
	Status    Status   `json:"status"`
	Detail    string   `json:"detail,omitempty"` // what fails / why undecided
	Witness   []string `json:"witness,omitempty"`
	Paths     int      `json:"paths,omitempty"` // paths / rows / sites analysed for this obligation
	Sites     int      `json:"sites,omitempty"`
	Finding   string   `json:"finding,omitempty"`
	Config    string   `json:"config,omitempty"` // build configuration (thorough tier), empty = host
}

type Finding struct {
	Property  string `json:"property"`
	Rule      string `json:"rule"`
	Construct string `json:"construct"`
	What      string `json:"what"`
	ID        string `json:"id"`
}

type KnownFile struct {
	Known []Finding `json:"known_findings"`
	Fixed []string  `json:"fixed"`
}

// Report collects the obligations of one check run.
type Report struct {
	Property   string
	Tier       string
	Level      string
	Start      time.Time
	Obs        []*Obligation
	Assume     []string
	Explain    string
	RuleText   string
	Checker    string
	Trusted    []string
	Extra      map[string]any
	Funcs      map[string]bool
	PathsTotal int
	SitesTotal int
	known      []Finding
	VerifDir   string
	mins       map[string]int
	minWhy     map[string]string
	// Rename maps a rule-id prefix to another one while another property's rules run as a shared part of this
	// property's check (e.g. "C07." → "C06.R14·C07."); applied to every obligation and minimum recorded meanwhile.
	Rename map[string]string
}

func VerifDir() string {
	if d := os.Getenv("GZV_VERIF"); d != "" {
		return d
	}
	return "/verif"
}

func New(prop, tier, level string) *Report {
	r := &Report{Property: prop, Tier: tier, Level: level, Start: time.Now(), Extra: map[string]any{}, Funcs: map[string]bool{},
		VerifDir: VerifDir(), mins: map[string]int{}, minWhy: map[string]string{}}
	var kf KnownFile
	if b, err := os.ReadFile(filepath.Join(r.VerifDir, "known_findings.json")); err == nil {
		if err := json.Unmarshal(b, &kf); err == nil {
			for _, f := range kf.Known {
				if f.Property == prop {
					r.known = append(r.known, f)
				}
			}
		}
	}
	return r
}

// Min registers the minimum number of obligations a rule must produce (confirmed
// by hand on the pinned tree); fewer is UNDECIDED, never a vacuous pass.
func (r *Report) rn(rule string) string {
	for from, to := range r.Rename {
		if strings.HasPrefix(rule, from) {
			return to + rule[len(from):]
		}
	}
	return rule
}

func (r *Report) Min(rule string, n int, why string) {
	rule = r.rn(rule)
	r.mins[rule] = n
	r.minWhy[rule] = why
}

func (r *Report) add(o *Obligation) *Obligation {
	if o.ID == "" {
		o.ID = o.Rule + ":" + o.Construct
	}
	r.Obs = append(r.Obs, o)
	r.PathsTotal += o.Paths
	r.SitesTotal += o.Sites
	return o
}

func (r *Report) Hold(rule, construct, text string, paths int) *Obligation {
	rule = r.rn(rule)
	return r.add(&Obligation{Rule: rule, Construct: construct, Text: text, Status: Holds, Paths: paths})
}

// Fail records a violated obligation (or a KNOWN one when listed in the known
// findings file by rule + construct).
func (r *Report) Fail(rule, construct, text, pos, detail string, witness []string) *Obligation {
	rule = r.rn(rule)
	o := &Obligation{Rule: rule, Construct: construct, Text: text, Pos: pos, Status: Violated, Detail: detail, Witness: witness}
	for _, f := range r.known {
		if f.Rule == rule && f.Construct == construct {
			o.Status = Known
			o.Finding = f.ID + ": " + f.What
		}
	}
	return r.add(o)
}

func (r *Report) Undecided(rule, construct, text, reason string) *Obligation {
	rule = r.rn(rule)
	return r.add(&Obligation{Rule: rule, Construct: construct, Text: text, Status: Undecided, Detail: reason})
}

// Check is a convenience: ok → Hold, else Fail.
func (r *Report) Check(ok bool, rule, construct, text, pos, detail string, witness []string, paths int) *Obligation {
	if ok {
		return r.Hold(rule, construct, text, paths)
	}
	o := r.Fail(rule, construct, text, pos, detail, witness)
	o.Paths = paths
	r.PathsTotal += paths
	return o
}

// Finish prints the verdict, writes evidence and replay files and returns the
// exit code.
func (r *Report) Finish(verbose bool) int {
	// minimum instance counts
	count := map[string]int{}
	for _, o := range r.Obs {
		count[o.Rule]++
	}
	var rules []string
	for rule := range r.mins {
		rules = append(rules, rule)
	}
	sort.Strings(rules)
	for _, rule := range rules {
		if count[rule] < r.mins[rule] {
			r.Undecided(rule, "instances", r.minWhy[rule],
				fmt.Sprintf("rule matched %d constructs, expected at least %d (%s): anchors moved or were removed", count[rule], r.mins[rule], r.minWhy[rule]))
		}
	}
	evDir := filepath.Join(r.VerifDir, "evidence")
	if d := os.Getenv("GZV_EVIDENCE_DIR"); d != "" {
		evDir = d // development tools (mutant / seed runs) must not overwrite the evidence of the unchanged tree
	}
	repDir := filepath.Join(evDir, "replay")
	os.MkdirAll(repDir, 0o755)
	old, _ := filepath.Glob(filepath.Join(repDir, r.Property+"-*.json"))
	for _, f := range old {
		os.Remove(f)
	}
	nViol, nKnown, nHold := 0, 0, 0
	distinct := map[string]bool{}
	var samples []any
	perRule := map[string]int{}
	for _, o := range r.Obs {
		switch o.Status {
		case Holds:
			nHold++
		case Known:
			nKnown++
			fmt.Printf("KNOWN-FINDING: property=%s %s %s: %s\n", r.Property, o.Rule, o.Construct, o.Detail)
		case Violated, Undecided:
			nViol++
			name := fmt.Sprintf("%s-%s-%d.json", r.Property, sanitize(o.Rule), nViol)
			path := filepath.Join(repDir, name)
			b, _ := json.MarshalIndent(o, "", " ")
			os.WriteFile(path, b, 0o644)
			what := "violated"
			if o.Status == Undecided {
				what = "undecided"
			}
			fmt.Printf("%s: %s %s [%s] %s: %s\n", o.Pos, o.Rule, what, o.Construct, o.Text, o.Detail)
			for _, w := range o.Witness {
				fmt.Printf("    %s\n", w)
			}
			fmt.Printf("VIOLATION property=%s replay=%s\n", r.Property, path)
		}
		if o.Paths > 0 || o.Sites > 0 || o.Status != Holds {
			distinct[o.ID] = true
		}
		if perRule[o.Rule] < 2 || o.Status != Holds {
			perRule[o.Rule]++
			samples = append(samples, map[string]any{"rule": o.Rule, "construct": o.Construct, "text": o.Text, "status": o.Status, "paths_or_rows": o.Paths, "detail": o.Detail})
		}
	}
	if verbose {
		for _, o := range r.Obs {
			fmt.Printf("  %-9s %-10s %-60s paths=%d %s\n", o.Status, o.Rule, o.Construct, o.Paths, o.Detail)
		}
	}
	var funcs []string
	for f := range r.Funcs {
		funcs = append(funcs, f)
	}
	sort.Strings(funcs)
	cov := map[string]any{
		"obligations":         len(r.Obs),
		"discharged":          nHold,
		"known_findings":      nKnown,
		"evaluations":         len(r.Obs),
		"distinct_nontrivial": len(distinct),
		"rule":                r.RuleText,
		"explanation":         r.Explain,
		"samples":             samples,
		"functions_analysed":  funcs,
		"paths_enumerated":    r.PathsTotal,
		"checker_cmd":         r.Checker,
		"trusted_base":        r.Trusted,
		"exhaustive":          true,
		"rules":               count,
	}
	for k, v := range r.Extra {
		cov[k] = v
	}
	seed := 0
	fmt.Sscanf(os.Getenv("VERIF_SEED"), "%d", &seed)
	ev := map[string]any{
		"property_id": r.Property,
		"tier":        r.Tier,
		"seed":        seed,
		"level":       r.Level,
		"coverage":    cov,
		"assumptions": r.Assume,
		"wall_s":      time.Since(r.Start).Seconds(),
		"violations":  nViol,
	}
	b, _ := json.MarshalIndent(ev, "", " ")
	if err := os.WriteFile(filepath.Join(evDir, r.Property+".json"), b, 0o644); err != nil {
		fmt.Println("cannot write evidence:", err)
		return 2
	}
	fmt.Printf("%s %s: %d obligations, %d hold, %d known findings, %d violated/undecided; %d paths/rows; %.1fs\n",
		r.Property, r.Tier, len(r.Obs), nHold, nKnown, nViol, r.PathsTotal, time.Since(r.Start).Seconds())
	if nViol > 0 {
		return 1
	}
	return 0
}

func sanitize(s string) string {
	return strings.Map(func(r rune) rune {
		if r == '/' || r == ' ' || r == ':' {
			return '_'
		}
		return r
	}, s)
}
