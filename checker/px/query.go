package px

import (
	"fmt"
	"go/token"
	"go/types"
	"strings"

	"golang.org/x/tools/go/ssa"
)

// Debug makes traces print call arguments.
var Debug = false

// Pred selects events.
type Pred func(e *Event) bool

// Calls selects non-inlined call events (and the entry events of inlined ones)
// whose resolved callee full name equals one of names. Names are
// types.Func.FullName() strings, e.g. "(*sync.WaitGroup).Done".
func Calls(names ...string) Pred {
	return func(e *Event) bool {
		if e.Kind != EvCall || e.Call == nil {
			return false
		}
		n := e.Call.Name()
		for _, w := range names {
			if n == w {
				return true
			}
		}
		return false
	}
}

// CallsSuffix matches callee names by suffix (after the module path), e.g.
// "core/breaker.(*googleBreaker).markDrop" matches
// "(*github.com/zeromicro/go-zero/core/breaker.googleBreaker).markDrop".
func CallsFn(fns ...*ssa.Function) Pred {
	return func(e *Event) bool {
		if e.Kind != EvCall || e.Call == nil || e.Call.Static == nil {
			return false
		}
		for _, f := range fns {
			if f != nil && e.Call.Static == f {
				return true
			}
		}
		return false
	}
}

// CallsObj matches calls (static or interface) resolving to one of the objects.
func CallsObj(objs ...*types.Func) Pred {
	return func(e *Event) bool {
		if e.Kind != EvCall || e.Call == nil {
			return false
		}
		o := e.Call.Obj()
		if o == nil {
			return false
		}
		for _, w := range objs {
			if w != nil && (o == w || o.Origin() == w) {
				return true
			}
		}
		return false
	}
}

// DynParam matches dynamic calls of the root function's parameter `name`
// (also when the parameter was captured by an inlined closure).
func DynParam(name string) Pred {
	return func(e *Event) bool {
		if e.Kind != EvCall || e.Call == nil || !e.Call.IsDyn() {
			return false
		}
		return e.Call.FnSym.IsParam(name)
	}
}

// DynWhere matches dynamic calls whose function value satisfies f.
func DynWhere(f func(s *Sym) bool) Pred {
	return func(e *Event) bool {
		return e.Kind == EvCall && e.Call != nil && e.Call.IsDyn() && f(e.Call.FnSym)
	}
}

// Iface matches interface-method calls by method name on a receiver satisfying f.
func Iface(method string, f func(recv *Sym) bool) Pred {
	return func(e *Event) bool {
		if e.Kind != EvCall || e.Call == nil || e.Call.Method == nil || e.Call.Method.Name() != method {
			return false
		}
		return f == nil || f(e.Call.Recv)
	}
}

func Or(ps ...Pred) Pred {
	return func(e *Event) bool {
		for _, p := range ps {
			if p(e) {
				return true
			}
		}
		return false
	}
}

func And(ps ...Pred) Pred {
	return func(e *Event) bool {
		for _, p := range ps {
			if !p(e) {
				return false
			}
		}
		return true
	}
}

func KindIs(k EvKind) Pred { return func(e *Event) bool { return e.Kind == k } }

// Count counts matching events on the path.
func (p *Path) Count(pr Pred) int {
	n := 0
	for i := range p.Events {
		if pr(&p.Events[i]) {
			n++
		}
	}
	return n
}

// First returns the first matching event or nil.
func (p *Path) First(pr Pred) *Event {
	for i := range p.Events {
		if pr(&p.Events[i]) {
			return &p.Events[i]
		}
	}
	return nil
}

func (p *Path) Last(pr Pred) *Event {
	for i := len(p.Events) - 1; i >= 0; i-- {
		if pr(&p.Events[i]) {
			return &p.Events[i]
		}
	}
	return nil
}

func (p *Path) All(pr Pred) []*Event {
	var out []*Event
	for i := range p.Events {
		if pr(&p.Events[i]) {
			out = append(out, &p.Events[i])
		}
	}
	return out
}

// Has reports whether some event matches.
func (p *Path) Has(pr Pred) bool { return p.First(pr) != nil }

// Precedes: every b is preceded by at least one a (vacuous when no b).
func (p *Path) Precedes(a, b Pred) bool {
	seenA := false
	for i := range p.Events {
		e := &p.Events[i]
		if a(e) {
			seenA = true
		}
		if b(e) && !seenA {
			return false
		}
	}
	return true
}

// PanicExit reports whether the path contains a modelled panic origin.
func (p *Path) PanicOrigin() *Event {
	for i := range p.Events {
		if p.Events[i].PanicsHere || p.Events[i].Kind == EvPanic {
			return &p.Events[i]
		}
	}
	return nil
}

// Trace renders the path for replay files.
func (p *Path) Trace(pos func(token.Pos) string, max int) []string {
	var out []string
	for i := range p.Events {
		e := &p.Events[i]
		s := e.String()
		if s == "" {
			continue
		}
		out = append(out, fmt.Sprintf("%s  %s", pos(e.Pos), s))
		if max > 0 && len(out) >= max {
			out = append(out, "…")
			break
		}
	}
	out = append(out, "exit: "+p.Exit.String())
	return out
}

func (e *Event) String() string {
	flags := ""
	if e.InDefer {
		flags += " [deferred]"
	}
	if e.Panicking {
		flags += " [panicking]"
	}
	if e.PanicsHere {
		flags += " [panics here]"
	}
	if e.InGo {
		flags += " [goroutine]"
	}
	if e.Depth > 0 {
		flags += fmt.Sprintf(" [in %s]", e.Fn.Name())
	}
	switch e.Kind {
	case EvCall:
		in := ""
		if e.Inlined {
			in = " (analysed in place)"
		}
		args := ""
		if Debug {
			for _, a := range e.Call.Args {
				args += " <" + a.Describe() + ">"
			}
		}
		return "call " + e.Call.Name() + args + in + flags
	case EvGo:
		return "go " + e.Call.Name() + flags
	case EvDefer:
		return "defer " + e.Call.Name() + flags
	case EvStore:
		return "store " + e.Addr.Describe() + " = " + e.Val.Describe() + flags
	case EvLoad:
		return ""
	case EvSend:
		return "send " + e.Addr.Describe() + flags
	case EvRecv:
		return "recv " + e.Addr.Describe() + flags
	case EvClose:
		return "close " + e.Addr.Describe() + flags
	case EvSelect:
		if e.SelIndex < 0 {
			return "select: default" + flags
		}
		d := "recv"
		if e.SelDir == types.SendOnly {
			d = "send"
		}
		return fmt.Sprintf("select: case %d %s %s%s", e.SelIndex, d, e.Addr.Describe(), flags)
	case EvMapUpdate:
		return "map store " + e.Addr.Describe() + flags
	case EvReturn:
		var rs []string
		for _, r := range e.Results {
			rs = append(rs, r.Describe())
		}
		return "return " + strings.Join(rs, ", ") + flags
	case EvPanic:
		return "panic" + flags
	case EvBranch:
		return fmt.Sprintf("branch %s = %v%s", e.Cond.Describe(), e.Taken, flags)
	case EvRecover:
		return "recover() stops the panic" + flags
	case EvLoopCut:
		return "loop bound reached" + flags
	case EvRunDefers:
		return ""
	case EvLookup:
		return ""
	case EvAssert:
		return ""
	}
	return e.Kind.String()
}

// IsFieldLoad: s is a value loaded from field `field` of a struct reachable
// from base (base satisfies f). Looks through boxing.
func IsFieldLoad(s *Sym, field string, f func(base *Sym) bool) bool {
	s = s.Strip(false)
	if s == nil {
		return false
	}
	var addr *Sym
	switch s.Kind {
	case KLoad:
		addr = s.X
	case KField:
		if fieldName(s.X.Typ, s.Index) != field {
			return false
		}
		return f == nil || f(s.X)
	default:
		return false
	}
	if addr == nil || addr.Kind != KFieldAddr {
		return false
	}
	if fieldName(addr.X.Typ, addr.Index) != field {
		return false
	}
	return f == nil || f(addr.X)
}

// FieldAddrIs: addr is &base.field
func FieldAddrIs(addr *Sym, field string, f func(base *Sym) bool) bool {
	if addr == nil || addr.Kind != KFieldAddr {
		return false
	}
	if fieldName(addr.X.Typ, addr.Index) != field {
		return false
	}
	return f == nil || f(addr.X)
}

// IsGlobalLoad: s is the value of package-level variable obj.
func IsGlobalLoad(s *Sym, pkgPath, name string) bool {
	s = s.Strip(false)
	if s == nil || s.Kind != KLoad || s.X == nil || s.X.Kind != KGlobal {
		return false
	}
	g, ok := s.X.V.(*ssa.Global)
	if !ok {
		return false
	}
	return g.Name() == name && g.Pkg != nil && g.Pkg.Pkg.Path() == pkgPath
}

// IsNilConst reports whether s is the nil constant.
func IsNilConst(s *Sym) bool {
	s = s.Strip(false)
	if s == nil {
		return false
	}
	if s.Kind == KZero {
		return zeroAbs(s.Typ).K == Nil
	}
	if s.Kind != KConst {
		return false
	}
	c, ok := s.V.(*ssa.Const)
	return ok && c.Value == nil && isNillable(c.Type())
}

// ResultOf: s is the (i-th) result of a call event matching pr. For single-result
// calls use i = 0.
func ResultOf(s *Sym, i int, pr func(ci *CallInfo) bool) bool {
	s = s.Strip(false)
	if s == nil {
		return false
	}
	if s.Kind == KExtract {
		if s.Index != i {
			return false
		}
		s = s.X
	} else if i != 0 {
		return false
	}
	if s.Kind != KCall || s.Call == nil {
		return false
	}
	return pr(s.Call)
}

// CellOf returns the cell a captured variable / alloc named `name` denotes.
func IsCellNamed(addr *Sym, name string) bool {
	if addr == nil {
		return false
	}
	switch addr.Kind {
	case KAlloc:
		a, ok := addr.V.(*ssa.Alloc)
		return ok && a.Comment == name
	case KFreeVar:
		return addr.V.Name() == name
	}
	return false
}

// AllocName returns the source name of the local variable an alloc cell holds.
func AllocName(s *Sym) string {
	if s == nil || s.Kind != KAlloc {
		return ""
	}
	if a, ok := s.V.(*ssa.Alloc); ok {
		return a.Comment
	}
	return ""
}

// Extract returns the sym of component i of a tuple-valued sym on this path
// (nil if the component is never used).
func (p *Path) Extract(tuple *Sym, i int) *Sym {
	if tuple == nil {
		return nil
	}
	if (tuple.Kind == KTuple || tuple.Kind == KSelect) && i < len(tuple.Elems) {
		return tuple.Elems[i]
	}
	return p.st.canon[ckey{base: tuple, idx: i, kind: KExtract}]
}

// ParamSym returns the sym of a root parameter.
func (p *Path) ParamSym(prm *ssa.Parameter) *Sym { return p.st.params[prm] }
