// Package px is the path-effect engine (E2 of DESIGN.md): it enumerates the
// entry→exit paths of an SSA function (loops bounded), models defers, panics
// and recover, inlines closures and selected callees, carries a small abstract
// store (nil / non-nil / true / false / constant) that prunes infeasible
// branches, and records each path as a sequence of events over resolved
// program entities. It does not execute go-zero and does no arithmetic.
package px

import (
	"fmt"
	"go/constant"
	"go/token"
	"go/types"
	"strings"

	"golang.org/x/tools/go/ssa"
)

type Kind int

const (
	KOther Kind = iota
	KParam
	KConst
	KGlobal
	KAlloc
	KFieldAddr // address of field Index of *X
	KIndexAddr // address of element (constant Index, or Y) of X
	KLoad      // value loaded from an address never stored on this path
	KCall      // result of a call (tuple or single)
	KExtract   // component Index of tuple X
	KClosure
	KFunc // a static function used as a value
	KBinOp
	KUnOp
	KConvert
	KMkIface
	KChangeType
	KTypeAssert
	KFreeVar // free variable of a root closure (a cell address)
	KField   // field Index of struct value X
	KZero    // zero value of a fresh allocation
	KTuple   // results of an inlined call
	KSlice   // slice of X
	KRecv    // value received from channel X
	KSelect  // result tuple of a select
	KPanicVal
	KPhi // merge of values in a loop cut (unknown)
	KLookup
	KNext
	KRange
	KMakeChan
	KMakeMap
	KMakeSlice
)

// Sym is a symbolic value: an immutable node shared between paths.
type Sym struct {
	ID      int
	Kind    Kind
	V       ssa.Value // originating SSA value (may be nil for synthetic syms)
	Typ     types.Type
	X, Y    *Sym
	Op      token.Token
	Index   int
	Elems   []*Sym
	Ops     []*Sym // other operands (for slicing)
	Fn      *ssa.Function
	Call    *CallInfo
	Depth   int
	CommaOk bool
}

type AbsK int

const (
	Unknown AbsK = iota
	Nil
	NonNil
	True
	False
	ConstV
)

type Abs struct {
	K AbsK
	C constant.Value
}

func (a Abs) String() string {
	switch a.K {
	case Nil:
		return "nil"
	case NonNil:
		return "non-nil"
	case True:
		return "true"
	case False:
		return "false"
	case ConstV:
		return "const " + a.C.String()
	}
	return "unknown"
}

// Strip removes value-preserving wrappers (interface boxing, type changes,
// conversions when conv is true).
func (s *Sym) Strip(conv bool) *Sym {
	for s != nil {
		switch s.Kind {
		case KMkIface, KChangeType:
			s = s.X
		case KConvert:
			if !conv {
				return s
			}
			s = s.X
		default:
			return s
		}
	}
	return s
}

// IsParam reports whether s is the parameter with the given name of the root
// function (depth 0), looking through boxing.
func (s *Sym) IsParam(name string) bool {
	s = s.Strip(false)
	if s == nil || s.Kind != KParam {
		return false
	}
	p, ok := s.V.(*ssa.Parameter)
	return ok && p.Name() == name
}

// FieldOf: s is a load of (or the address of) field `field` of base; returns base.
func (s *Sym) FieldAddrOf() (base *Sym, field string, ok bool) {
	if s == nil || s.Kind != KFieldAddr {
		return nil, "", false
	}
	return s.X, fieldName(s.X.Typ, s.Index), true
}

func fieldName(t types.Type, idx int) string {
	if t == nil {
		return fmt.Sprintf("#%d", idx)
	}
	if p, ok := t.Underlying().(*types.Pointer); ok {
		t = p.Elem()
	}
	if st, ok := t.Underlying().(*types.Struct); ok && idx < st.NumFields() {
		return st.Field(idx).Name()
	}
	return fmt.Sprintf("#%d", idx)
}

// FieldVar returns the *types.Var of the field a KFieldAddr / KField sym denotes.
func (s *Sym) FieldVar() *types.Var {
	if s == nil || (s.Kind != KFieldAddr && s.Kind != KField) || s.X == nil || s.X.Typ == nil {
		return nil
	}
	t := s.X.Typ
	if p, ok := t.Underlying().(*types.Pointer); ok {
		t = p.Elem()
	}
	if st, ok := t.Underlying().(*types.Struct); ok && s.Index < st.NumFields() {
		return st.Field(s.Index)
	}
	return nil
}

// Describe renders a sym for reports.
func (s *Sym) Describe() string {
	return s.describe(0)
}

func (s *Sym) describe(d int) string {
	if s == nil {
		return "<nil>"
	}
	if d > 6 {
		return "…"
	}
	switch s.Kind {
	case KParam:
		return "param " + s.V.Name()
	case KConst:
		if c, ok := s.V.(*ssa.Const); ok {
			if c.Value == nil {
				return "nil"
			}
			return c.Value.String()
		}
		return "const"
	case KGlobal:
		return "var " + strings.TrimPrefix(s.V.String(), "&")
	case KAlloc:
		if a, ok := s.V.(*ssa.Alloc); ok && a.Comment != "" {
			return "&" + a.Comment
		}
		return "&local"
	case KFieldAddr:
		return "&" + s.X.describe(d+1) + "." + fieldName(s.X.Typ, s.Index)
	case KField:
		return s.X.describe(d+1) + "." + fieldName(s.X.Typ, s.Index)
	case KIndexAddr:
		return "&" + s.X.describe(d+1) + "[…]"
	case KLoad:
		return "*(" + s.X.describe(d+1) + ")"
	case KCall:
		if s.Call != nil {
			return "result of " + s.Call.Name()
		}
		return "call"
	case KExtract:
		return fmt.Sprintf("%s#%d", s.X.describe(d+1), s.Index)
	case KClosure:
		return "closure " + s.Fn.Name()
	case KFunc:
		return "func " + s.Fn.String()
	case KBinOp:
		return "(" + s.X.describe(d+1) + " " + s.Op.String() + " " + s.Y.describe(d+1) + ")"
	case KUnOp:
		return s.Op.String() + s.X.describe(d+1)
	case KConvert:
		return "convert(" + s.X.describe(d+1) + ")"
	case KMkIface, KChangeType:
		return s.X.describe(d + 1)
	case KTypeAssert:
		return "typeassert(" + s.X.describe(d+1) + ")"
	case KFreeVar:
		return "&captured " + s.V.Name()
	case KZero:
		return "zero"
	case KTuple:
		return "tuple"
	case KSlice:
		return "slice(" + s.X.describe(d+1) + ")"
	case KRecv:
		return "<-" + s.X.describe(d+1)
	case KSelect:
		return "select"
	case KPanicVal:
		return "panic value"
	}
	if s.V != nil {
		return fmt.Sprintf("%s(%s)", s.V.Name(), strings.SplitN(s.V.String(), "\n", 2)[0])
	}
	return "?"
}

// CallInfo describes a resolved call site on a path.
type CallInfo struct {
	Instr    ssa.Instruction
	Common   *ssa.CallCommon
	Static   *ssa.Function // statically resolved callee (closures and bound methods seen through)
	Method   *types.Func   // interface method for invoke-mode calls
	Builtin  string
	FnSym    *Sym // the function value for dynamic calls (nil for static/builtin/invoke)
	Recv     *Sym // receiver (invoke mode, bound method or static method call)
	Args     []*Sym
	Bindings []*Sym
	Pos      token.Pos
}

// Obj returns the types.Func the call resolves to (static callee's object or the
// interface method), nil for closures, builtins and dynamic calls.
func (c *CallInfo) Obj() *types.Func {
	if c.Method != nil {
		return c.Method
	}
	if c.Static != nil {
		if f, ok := c.Static.Object().(*types.Func); ok {
			return f
		}
	}
	return nil
}

// Name is the full name of the resolved callee: "pkg.Func", "(*pkg.T).M",
// "(pkg.I).M" for interface calls, "builtin X", "closure F$1", or "dyn <desc>".
func (c *CallInfo) Name() string {
	if c.Builtin != "" {
		return "builtin " + c.Builtin
	}
	if o := c.Obj(); o != nil {
		return o.FullName()
	}
	if c.Static != nil {
		return "closure " + c.Static.Name()
	}
	if c.FnSym != nil {
		return "dyn " + c.FnSym.Describe()
	}
	return "?"
}

// IsDyn reports whether the call is a dynamic call of a function value that is
// not a known closure: parameter, captured variable, field, call result.
func (c *CallInfo) IsDyn() bool {
	return c.Builtin == "" && c.Static == nil && c.Method == nil && c.FnSym != nil
}
