package px

import (
	"errors"
	"fmt"
	"go/constant"
	"go/token"
	"go/types"
	"strings"

	"golang.org/x/tools/go/ssa"
)

// ---------------------------------------------------------------- events

type EvKind int

const (
	EvCall EvKind = iota
	EvGo
	EvDefer
	EvStore
	EvLoad
	EvSend
	EvRecv
	EvClose
	EvSelect
	EvMapUpdate
	EvReturn
	EvPanic
	EvBranch
	EvRecover
	EvLoopCut
	EvLookup
	EvRunDefers
	EvAssert // single-value type assertion (panics when the dynamic type differs)
)

var evNames = map[EvKind]string{EvCall: "call", EvGo: "go", EvDefer: "defer", EvStore: "store", EvLoad: "load", EvSend: "send",
	EvRecv: "recv", EvClose: "close", EvSelect: "select", EvMapUpdate: "mapupdate", EvReturn: "return", EvPanic: "panic",
	EvBranch: "branch", EvRecover: "recover", EvLoopCut: "loopcut", EvLookup: "lookup", EvRunDefers: "rundefers", EvAssert: "assert"}

func (k EvKind) String() string { return evNames[k] }

type Event struct {
	Kind       EvKind
	Instr      ssa.Instruction
	Pos        token.Pos
	Fn         *ssa.Function // function whose body contains the instruction
	Depth      int           // inlining depth (0 = root)
	Call       *CallInfo
	Addr       *Sym // store/load address, channel, map
	Key        *Sym
	Val        *Sym
	Res        *Sym
	Cond       *Sym
	Taken      bool
	Forced     bool // branch decided by the abstract store
	InDefer    bool // executed while deferred calls are running
	Panicking  bool // executed while a panic is in flight
	PanicsHere bool // this call is where the modelled panic originates
	GoexitHere bool // this call is where the modelled runtime.Goexit happens
	Inlined    bool
	SelIndex   int
	SelN       int
	SelDir     types.ChanDir
	Blocking   bool
	InGo       bool
	Via        *CallInfo // the modelled call through which this closure was invoked
	Results    []*Sym
	Seq        int
}

type ExitKind int

const (
	ExitReturn ExitKind = iota
	ExitPanic
	ExitCut // loop bound reached
	ExitNoReturn
	ExitGoexit // the goroutine was ended by runtime.Goexit at a user call (Config.MayGoexit): defers ran, recover() saw nil
)

func (k ExitKind) String() string {
	return [...]string{"return", "panic", "loop-cut", "no-return", "goexit"}[k]
}

type Path struct {
	Events  []Event
	Exit    ExitKind
	Results []*Sym
	st      *State
}

func (p *Path) Abs(s *Sym) Abs { return p.st.Abs(s) }

// ---------------------------------------------------------------- config

type Model struct {
	Invoke   []*Sym // function values the callee calls, in order, each once
	Maybe    bool   // fork an additional path on which none is invoked
	Recovers bool   // callee (used as deferred function) stops a panic
	NoReturn bool   // callee never returns (os.Exit, log.Fatal)
}

type Config struct {
	Prog *ssa.Program
	// Inline decides whether a resolved static callee with a body is analysed in
	// place. Closures called directly or deferred are always inlined.
	Inline func(ci *CallInfo, depth int) bool
	// MayPanic: fork a panic exit at this (non-inlined) call.
	MayPanic func(ci *CallInfo) bool
	// MayGoexit: fork an exit at this (non-inlined) call on which the callee ends the goroutine with
	// runtime.Goexit (t.FailNow in a callback, …): deferred calls run, recover() returns nil, nothing returns.
	MayGoexit func(ci *CallInfo) bool
	// Model gives library summaries for calls that invoke their function arguments.
	Model func(in *Interp, st *State, ci *CallInfo) *Model
	// ParamAbs presets abstract values for root parameters (by name).
	ParamAbs map[string]Abs
	// InlineGo analyses `go func(){…}()` closures in place at the spawn point
	// (events flagged InGo); a panic escaping the goroutine ends only the goroutine.
	InlineGo bool
	// Keep lists functions that must stay opaque calls (never analysed in place).
	Keep      map[*ssa.Function]bool
	MaxPaths  int
	MaxVisits int
	MaxDepth  int
	MaxSteps  int
	// NoForkOn: branch conditions for which only one side is explored (none by default)
}

var ErrBound = errors.New("path bound exceeded")

// ---------------------------------------------------------------- state

type deferred struct {
	ci *CallInfo
}

type Frame struct {
	fn       *ssa.Function
	env      map[ssa.Value]*Sym
	bindings []*Sym
	defers   []deferred
	visits   map[*ssa.BasicBlock]int
	k        func(*State, outcome)
	asDefer  bool // frame is a deferred call being run
	running  int  // >0 while this frame's defers are running
	via      *CallInfo
	call     *CallInfo
	inGo     bool
}

type outcome struct {
	goexit  bool
	panic   bool
	cut     bool
	noret   bool
	results []*Sym
}

type ckey struct {
	base *Sym
	idx  int
	kind Kind
	y    *Sym
}

type State struct {
	frames    []*Frame
	abs       map[*Sym]Abs
	cells     map[*Sym]*Sym
	canon     map[ckey]*Sym
	events    []Event
	panicking bool
	goexiting bool
	panicVal  *Sym
	steps     int
	params    map[*ssa.Parameter]*Sym // root parameters (shared, read-only)
}

func (st *State) clone() *State {
	n := &State{panicking: st.panicking, goexiting: st.goexiting, panicVal: st.panicVal, steps: st.steps, params: st.params}
	n.frames = make([]*Frame, len(st.frames))
	for i, f := range st.frames {
		nf := *f
		nf.env = make(map[ssa.Value]*Sym, len(f.env))
		for k, v := range f.env {
			nf.env[k] = v
		}
		nf.visits = make(map[*ssa.BasicBlock]int, len(f.visits))
		for k, v := range f.visits {
			nf.visits[k] = v
		}
		nf.defers = append([]deferred(nil), f.defers...)
		n.frames[i] = &nf
	}
	n.abs = make(map[*Sym]Abs, len(st.abs))
	for k, v := range st.abs {
		n.abs[k] = v
	}
	n.cells = make(map[*Sym]*Sym, len(st.cells))
	for k, v := range st.cells {
		n.cells[k] = v
	}
	n.canon = make(map[ckey]*Sym, len(st.canon))
	for k, v := range st.canon {
		n.canon[k] = v
	}
	n.events = append([]Event(nil), st.events...)
	return n
}

// Abs returns the abstract value of a sym on this path.
func (st *State) Abs(s *Sym) Abs {
	if s == nil {
		return Abs{}
	}
	if a, ok := st.abs[s]; ok {
		return a
	}
	switch s.Kind {
	case KConst:
		if c, ok := s.V.(*ssa.Const); ok {
			return constAbs(c)
		}
	case KGlobal, KAlloc, KFieldAddr, KIndexAddr, KClosure, KFunc, KMkIface, KFreeVar, KMakeChan, KMakeMap, KMakeSlice:
		return Abs{K: NonNil}
	case KChangeType:
		return st.Abs(s.X)
	case KZero:
		return zeroAbs(s.Typ)
	}
	return Abs{}
}

func constAbs(c *ssa.Const) Abs {
	if c.Value == nil {
		if isNillable(c.Type()) {
			return Abs{K: Nil}
		}
		return Abs{} // zero value of aggregate
	}
	if c.Value.Kind() == constant.Bool {
		if constant.BoolVal(c.Value) {
			return Abs{K: True}
		}
		return Abs{K: False}
	}
	return Abs{K: ConstV, C: c.Value}
}

func isNillable(t types.Type) bool {
	switch u := t.Underlying().(type) {
	case *types.Pointer, *types.Interface, *types.Map, *types.Chan, *types.Slice, *types.Signature:
		return true
	case *types.Basic:
		return u.Kind() == types.UnsafePointer || u.Kind() == types.UntypedNil
	}
	return false
}

func zeroAbs(t types.Type) Abs {
	if t == nil {
		return Abs{}
	}
	if isNillable(t) {
		return Abs{K: Nil}
	}
	if b, ok := t.Underlying().(*types.Basic); ok {
		switch {
		case b.Info()&types.IsBoolean != 0:
			return Abs{K: False}
		case b.Info()&types.IsInteger != 0:
			return Abs{K: ConstV, C: constant.MakeInt64(0)}
		case b.Info()&types.IsFloat != 0:
			return Abs{K: ConstV, C: constant.MakeFloat64(0)}
		case b.Info()&types.IsString != 0:
			return Abs{K: ConstV, C: constant.MakeString("")}
		}
	}
	return Abs{}
}

// ---------------------------------------------------------------- interpreter

type Interp struct {
	cfg    Config
	nextID int
	consts map[ssa.Value]*Sym
	paths  []*Path
	err    error
	root   *ssa.Function
	Stats  struct{ Paths, Events, Forks, Cuts int }
}

// Run enumerates the paths of fn.
func Run(cfg Config, fn *ssa.Function) ([]*Path, *Interp, error) {
	if fn == nil || fn.Blocks == nil {
		return nil, nil, fmt.Errorf("function has no body")
	}
	if cfg.MaxPaths == 0 {
		cfg.MaxPaths = 20000
	}
	if cfg.MaxVisits == 0 {
		cfg.MaxVisits = 2
	}
	if cfg.MaxDepth == 0 {
		cfg.MaxDepth = 4
	}
	if cfg.MaxSteps == 0 {
		cfg.MaxSteps = 200000
	}
	in := &Interp{cfg: cfg, consts: map[ssa.Value]*Sym{}, root: fn}
	st := &State{abs: map[*Sym]Abs{}, cells: map[*Sym]*Sym{}, canon: map[ckey]*Sym{}, params: map[*ssa.Parameter]*Sym{}}
	var args []*Sym
	for _, p := range fn.Params {
		s := in.newSym(&Sym{Kind: KParam, V: p, Typ: p.Type()})
		st.params[p] = s
		if a, ok := cfg.ParamAbs[p.Name()]; ok {
			st.abs[s] = a
		}
		args = append(args, s)
	}
	var binds []*Sym
	for _, fv := range fn.FreeVars {
		binds = append(binds, in.newSym(&Sym{Kind: KFreeVar, V: fv, Typ: fv.Type()}))
	}
	func() {
		defer func() {
			if r := recover(); r != nil {
				if e, ok := r.(error); ok && errors.Is(e, ErrBound) {
					in.err = e
					return
				}
				in.err = fmt.Errorf("internal error analysing %s: %v", fn, r)
			}
		}()
		in.enter(st, fn, args, binds, nil, false, nil, func(st *State, out outcome) {
			p := &Path{Events: st.events, Results: out.results, st: st}
			switch {
			case out.goexit:
				p.Exit = ExitGoexit
			case out.panic:
				p.Exit = ExitPanic
			case out.cut:
				p.Exit = ExitCut
			case out.noret:
				p.Exit = ExitNoReturn
			}
			in.paths = append(in.paths, p)
			in.Stats.Paths++
			in.Stats.Events += len(st.events)
			if len(in.paths) > in.cfg.MaxPaths {
				panic(fmt.Errorf("%w: more than %d paths in %s", ErrBound, in.cfg.MaxPaths, fn))
			}
		})
	}()
	return in.paths, in, in.err
}

func (in *Interp) newSym(s *Sym) *Sym {
	in.nextID++
	s.ID = in.nextID
	return s
}

func (in *Interp) constInt(st *State, v int64) *Sym {
	s := in.newSym(&Sym{Kind: KConst, Typ: types.Typ[types.Int]})
	st.abs[s] = Abs{K: ConstV, C: constant.MakeInt64(v)}
	return s
}

func (in *Interp) emit(st *State, fi int, e Event) {
	fr := st.frames[fi]
	e.Fn = fr.fn
	e.Depth = fi
	e.Panicking = st.panicking
	e.Via = fr.via
	for _, f := range st.frames {
		if f.running > 0 {
			e.InDefer = true
		}
		if f.inGo {
			e.InGo = true
		}
	}
	if e.Instr != nil && e.Pos == token.NoPos {
		e.Pos = e.Instr.Pos()
	}
	e.Seq = len(st.events)
	st.events = append(st.events, e)
}

// enter pushes a frame for fn and executes it; k is called for every outcome.
func (in *Interp) enter(st *State, fn *ssa.Function, args, binds []*Sym, ci *CallInfo, asDefer bool, via *CallInfo, k func(*State, outcome)) {
	fr := &Frame{fn: fn, env: map[ssa.Value]*Sym{}, bindings: binds, visits: map[*ssa.BasicBlock]int{}, k: k, asDefer: asDefer, via: via, call: ci}
	if via == nil && len(st.frames) > 0 {
		fr.via = st.frames[len(st.frames)-1].via
	}
	for i, p := range fn.Params {
		if i < len(args) && args[i] != nil {
			fr.env[p] = args[i]
		} else {
			fr.env[p] = in.newSym(&Sym{Kind: KOther, V: p, Typ: p.Type()})
		}
	}
	st.frames = append(st.frames, fr)
	in.exec(st, len(st.frames)-1, fn.Blocks[0], 0, nil)
}

// enterGo analyses a goroutine closure in place; whatever its outcome, the
// spawning function continues.
func (in *Interp) enterGo(st *State, ci *CallInfo, k func(*State)) {
	fr := &Frame{fn: ci.Static, env: map[ssa.Value]*Sym{}, bindings: ci.Bindings, visits: map[*ssa.BasicBlock]int{}, call: ci, inGo: true}
	fr.k = func(st *State, out outcome) {
		st.panicking = false
		k(st)
	}
	for i, p := range ci.Static.Params {
		if i < len(ci.Args) && ci.Args[i] != nil {
			fr.env[p] = ci.Args[i]
		}
	}
	st.frames = append(st.frames, fr)
	in.exec(st, len(st.frames)-1, ci.Static.Blocks[0], 0, nil)
}

func (in *Interp) leave(st *State, fi int, out outcome) {
	fr := st.frames[fi]
	st.frames = st.frames[:fi]
	fr.k(st, out)
}

func (in *Interp) val(st *State, fi int, v ssa.Value) *Sym {
	fr := st.frames[fi]
	if s, ok := fr.env[v]; ok {
		return s
	}
	switch v := v.(type) {
	case *ssa.Const:
		if s, ok := in.consts[v]; ok {
			return s
		}
		s := in.newSym(&Sym{Kind: KConst, V: v, Typ: v.Type()})
		in.consts[v] = s
		return s
	case *ssa.Global:
		if s, ok := in.consts[v]; ok {
			return s
		}
		s := in.newSym(&Sym{Kind: KGlobal, V: v, Typ: v.Type()})
		in.consts[v] = s
		return s
	case *ssa.Function:
		if s, ok := in.consts[v]; ok {
			return s
		}
		s := in.newSym(&Sym{Kind: KFunc, V: v, Fn: v, Typ: v.Type()})
		in.consts[v] = s
		return s
	case *ssa.FreeVar:
		for i, fv := range fr.fn.FreeVars {
			if fv == v && i < len(fr.bindings) {
				return fr.bindings[i]
			}
		}
	}
	s := in.newSym(&Sym{Kind: KOther, V: v, Typ: v.Type()})
	fr.env[v] = s
	return s
}

func (in *Interp) canon(st *State, k ckey, mk func() *Sym) *Sym {
	if s, ok := st.canon[k]; ok {
		return s
	}
	s := in.newSym(mk())
	st.canon[k] = s
	return s
}

func (in *Interp) load(st *State, addr *Sym, instr ssa.Value) *Sym {
	if c, ok := st.cells[addr]; ok {
		return c
	}
	var s *Sym
	if addr.Kind == KAlloc {
		var t types.Type
		if p, ok := addr.Typ.Underlying().(*types.Pointer); ok {
			t = p.Elem()
		}
		s = in.newSym(&Sym{Kind: KZero, Typ: t, X: addr})
	} else {
		s = in.newSym(&Sym{Kind: KLoad, V: instr, X: addr, Typ: instr.Type()})
	}
	st.cells[addr] = s
	return s
}

func (in *Interp) step(st *State) {
	st.steps++
	if st.steps > in.cfg.MaxSteps {
		panic(fmt.Errorf("%w: more than %d steps on one path in %s", ErrBound, in.cfg.MaxSteps, in.root))
	}
}

// exec runs instructions of frame fi starting at block b, index idx.
func (in *Interp) exec(st *State, fi int, b *ssa.BasicBlock, idx int, pred *ssa.BasicBlock) {
	fr := st.frames[fi]
	if idx == 0 {
		fr.visits[b]++
		if fr.visits[b] > in.cfg.MaxVisits {
			in.Stats.Cuts++
			in.emit(st, fi, Event{Kind: EvLoopCut})
			// abandon the whole path: unwinding the frames would invent behaviour
			top := st.frames[0]
			st.frames = st.frames[:0]
			top.k(st, outcome{cut: true})
			return
		}
		// phis are evaluated simultaneously
		var phis []*ssa.Phi
		var vals []*Sym
		for _, ins := range b.Instrs {
			phi, ok := ins.(*ssa.Phi)
			if !ok {
				break
			}
			k := -1
			for i, p := range b.Preds {
				if p == pred {
					k = i
				}
			}
			if k >= 0 {
				phis = append(phis, phi)
				vals = append(vals, in.val(st, fi, phi.Edges[k]))
			}
		}
		for i, phi := range phis {
			fr.env[phi] = vals[i]
		}
	}
	for i := idx; i < len(b.Instrs); i++ {
		in.step(st)
		ins := b.Instrs[i]
		switch ins := ins.(type) {
		case *ssa.Phi:
			// done above
		case *ssa.DebugRef:
		case *ssa.Alloc:
			fr.env[ins] = in.newSym(&Sym{Kind: KAlloc, V: ins, Typ: ins.Type(), Depth: fi})
		case *ssa.Store:
			addr := in.val(st, fi, ins.Addr)
			v := in.val(st, fi, ins.Val)
			st.cells[addr] = v
			in.emit(st, fi, Event{Kind: EvStore, Instr: ins, Addr: addr, Val: v})
		case *ssa.UnOp:
			x := in.val(st, fi, ins.X)
			switch ins.Op {
			case token.MUL:
				v := in.load(st, x, ins)
				fr.env[ins] = v
				if x.Kind != KAlloc {
					in.emit(st, fi, Event{Kind: EvLoad, Instr: ins, Addr: x, Val: v})
				}
			case token.ARROW:
				s := in.newSym(&Sym{Kind: KRecv, V: ins, X: x, Typ: ins.Type(), CommaOk: ins.CommaOk})
				fr.env[ins] = s
				in.emit(st, fi, Event{Kind: EvRecv, Instr: ins, Addr: x, Res: s})
			default:
				s := in.newSym(&Sym{Kind: KUnOp, V: ins, X: x, Op: ins.Op, Typ: ins.Type()})
				if ins.Op == token.NOT {
					switch st.Abs(x).K {
					case True:
						st.abs[s] = Abs{K: False}
					case False:
						st.abs[s] = Abs{K: True}
					}
				}
				fr.env[ins] = s
			}
		case *ssa.BinOp:
			x, y := in.val(st, fi, ins.X), in.val(st, fi, ins.Y)
			s := in.newSym(&Sym{Kind: KBinOp, V: ins, X: x, Y: y, Op: ins.Op, Typ: ins.Type()})
			if a, ok := in.evalCompare(st, ins.Op, x, y); ok {
				st.abs[s] = a
			}
			fr.env[ins] = s
		case *ssa.FieldAddr:
			x := in.val(st, fi, ins.X)
			fr.env[ins] = in.canon(st, ckey{base: x, idx: ins.Field, kind: KFieldAddr}, func() *Sym {
				return &Sym{Kind: KFieldAddr, V: ins, X: x, Index: ins.Field, Typ: ins.Type()}
			})
		case *ssa.Field:
			x := in.val(st, fi, ins.X)
			fr.env[ins] = in.canon(st, ckey{base: x, idx: ins.Field, kind: KField}, func() *Sym {
				return &Sym{Kind: KField, V: ins, X: x, Index: ins.Field, Typ: ins.Type()}
			})
		case *ssa.IndexAddr:
			x := in.val(st, fi, ins.X)
			y := in.val(st, fi, ins.Index)
			if c, ok := ins.Index.(*ssa.Const); ok && c.Value != nil {
				n, _ := constant.Int64Val(c.Value)
				base := x
				if base.Kind == KSlice {
					base = base.X
				}
				fr.env[ins] = in.canon(st, ckey{base: base, idx: int(n), kind: KIndexAddr}, func() *Sym {
					return &Sym{Kind: KIndexAddr, V: ins, X: base, Index: int(n), Typ: ins.Type()}
				})
			} else {
				fr.env[ins] = in.newSym(&Sym{Kind: KIndexAddr, V: ins, X: x, Y: y, Index: -1, Typ: ins.Type()})
			}
		case *ssa.Extract:
			t := in.val(st, fi, ins.Tuple)
			if (t.Kind == KTuple || t.Kind == KSelect) && ins.Index < len(t.Elems) && t.Elems[ins.Index] != nil {
				fr.env[ins] = t.Elems[ins.Index]
			} else {
				fr.env[ins] = in.canon(st, ckey{base: t, idx: ins.Index, kind: KExtract}, func() *Sym {
					return &Sym{Kind: KExtract, V: ins, X: t, Index: ins.Index, Typ: ins.Type()}
				})
			}
		case *ssa.MakeClosure:
			var binds []*Sym
			for _, bv := range ins.Bindings {
				binds = append(binds, in.val(st, fi, bv))
			}
			fr.env[ins] = in.newSym(&Sym{Kind: KClosure, V: ins, Fn: ins.Fn.(*ssa.Function), Elems: binds, Typ: ins.Type()})
		case *ssa.MakeInterface:
			x := in.val(st, fi, ins.X)
			fr.env[ins] = in.newSym(&Sym{Kind: KMkIface, V: ins, X: x, Typ: ins.Type()})
		case *ssa.ChangeType:
			x := in.val(st, fi, ins.X)
			fr.env[ins] = in.newSym(&Sym{Kind: KChangeType, V: ins, X: x, Typ: ins.Type()})
		case *ssa.ChangeInterface:
			x := in.val(st, fi, ins.X)
			fr.env[ins] = in.newSym(&Sym{Kind: KChangeType, V: ins, X: x, Typ: ins.Type()})
		case *ssa.Convert:
			x := in.val(st, fi, ins.X)
			s := in.newSym(&Sym{Kind: KConvert, V: ins, X: x, Typ: ins.Type()})
			if a := st.Abs(x); a.K == ConstV {
				st.abs[s] = a
			}
			fr.env[ins] = s
		case *ssa.TypeAssert:
			x := in.val(st, fi, ins.X)
			ta := in.newSym(&Sym{Kind: KTypeAssert, V: ins, X: x, Typ: ins.Type(), CommaOk: ins.CommaOk})
			fr.env[ins] = ta
			if !ins.CommaOk {
				in.emit(st, fi, Event{Kind: EvAssert, Instr: ins, Val: x, Res: ta})
			}
		case *ssa.Slice:
			x := in.val(st, fi, ins.X)
			fr.env[ins] = in.newSym(&Sym{Kind: KSlice, V: ins, X: x, Typ: ins.Type()})
		case *ssa.MakeChan:
			fr.env[ins] = in.newSym(&Sym{Kind: KMakeChan, V: ins, X: in.val(st, fi, ins.Size), Typ: ins.Type()})
		case *ssa.MakeMap:
			fr.env[ins] = in.newSym(&Sym{Kind: KMakeMap, V: ins, Typ: ins.Type()})
		case *ssa.MakeSlice:
			fr.env[ins] = in.newSym(&Sym{Kind: KMakeSlice, V: ins, Typ: ins.Type()})
		case *ssa.Lookup:
			x := in.val(st, fi, ins.X)
			y := in.val(st, fi, ins.Index)
			s := in.newSym(&Sym{Kind: KLookup, V: ins, X: x, Y: y, Typ: ins.Type(), CommaOk: ins.CommaOk})
			fr.env[ins] = s
			in.emit(st, fi, Event{Kind: EvLookup, Instr: ins, Addr: x, Key: y, Res: s})
		case *ssa.Range:
			fr.env[ins] = in.newSym(&Sym{Kind: KRange, V: ins, X: in.val(st, fi, ins.X), Typ: ins.Type()})
		case *ssa.Next:
			fr.env[ins] = in.newSym(&Sym{Kind: KNext, V: ins, X: in.val(st, fi, ins.Iter), Typ: ins.Type()})
		case *ssa.Index:
			fr.env[ins] = in.newSym(&Sym{Kind: KOther, V: ins, X: in.val(st, fi, ins.X), Y: in.val(st, fi, ins.Index), Typ: ins.Type()})
		case *ssa.MapUpdate:
			m := in.val(st, fi, ins.Map)
			in.emit(st, fi, Event{Kind: EvMapUpdate, Instr: ins, Addr: m, Key: in.val(st, fi, ins.Key), Val: in.val(st, fi, ins.Value)})
		case *ssa.Send:
			in.emit(st, fi, Event{Kind: EvSend, Instr: ins, Addr: in.val(st, fi, ins.Chan), Val: in.val(st, fi, ins.X)})
		case *ssa.Go:
			ci := in.callInfo(st, fi, ins, &ins.Call)
			in.emit(st, fi, Event{Kind: EvGo, Instr: ins, Call: ci})
			if in.cfg.InlineGo && ci.Static != nil && ci.Static.Blocks != nil && ci.Static.Parent() != nil && len(st.frames) <= in.cfg.MaxDepth+2 {
				next := i + 1
				in.enterGo(st, ci, func(st *State) {
					in.exec(st, fi, b, next, pred)
				})
				return
			}
		case *ssa.Defer:
			ci := in.callInfo(st, fi, ins, &ins.Call)
			fr.defers = append(fr.defers, deferred{ci})
			in.emit(st, fi, Event{Kind: EvDefer, Instr: ins, Call: ci})
		case *ssa.RunDefers:
			in.emit(st, fi, Event{Kind: EvRunDefers, Instr: ins})
			next := i + 1
			in.runDefers(st, fi, func(st *State) {
				in.exec(st, fi, b, next, pred)
			})
			return
		case *ssa.Select:
			in.execSelect(st, fi, b, i, pred, ins)
			return
		case *ssa.Call:
			ci := in.callInfo(st, fi, ins, &ins.Call)
			next := i + 1
			in.doCall(st, fi, ci, ins, false, func(st *State, res *Sym) {
				if res != nil {
					st.frames[fi].env[ins] = res
				}
				in.exec(st, fi, b, next, pred)
			})
			return
		case *ssa.Return:
			var rs []*Sym
			for _, r := range ins.Results {
				rs = append(rs, in.val(st, fi, r))
			}
			in.emit(st, fi, Event{Kind: EvReturn, Instr: ins, Results: rs})
			in.leave(st, fi, outcome{results: rs})
			return
		case *ssa.Panic:
			v := in.val(st, fi, ins.X)
			in.emit(st, fi, Event{Kind: EvPanic, Instr: ins, Val: v})
			st.panicking = true
			st.panicVal = v
			in.unwind(st, fi)
			return
		case *ssa.Jump:
			in.exec(st, fi, b.Succs[0], 0, b)
			return
		case *ssa.If:
			c := in.val(st, fi, ins.Cond)
			switch st.Abs(c).K {
			case True:
				in.emit(st, fi, Event{Kind: EvBranch, Instr: ins, Cond: c, Taken: true, Forced: true})
				in.exec(st, fi, b.Succs[0], 0, b)
			case False:
				in.emit(st, fi, Event{Kind: EvBranch, Instr: ins, Cond: c, Taken: false, Forced: true})
				in.exec(st, fi, b.Succs[1], 0, b)
			default:
				in.Stats.Forks++
				st2 := st.clone()
				in.assume(st, c, true)
				in.emit(st, fi, Event{Kind: EvBranch, Instr: ins, Cond: c, Taken: true})
				in.exec(st, fi, b.Succs[0], 0, b)
				in.assume(st2, c, false)
				in.emit(st2, fi, Event{Kind: EvBranch, Instr: ins, Cond: c, Taken: false})
				in.exec(st2, fi, b.Succs[1], 0, b)
			}
			return
		default:
			if v, ok := ins.(ssa.Value); ok {
				s := in.newSym(&Sym{Kind: KOther, V: v, Typ: v.Type()})
				for _, op := range ins.Operands(nil) {
					if *op != nil {
						s.Ops = append(s.Ops, in.val(st, fi, *op))
					}
				}
				fr.env[v] = s
			}
		}
	}
}

func (in *Interp) execSelect(st *State, fi int, b *ssa.BasicBlock, i int, pred *ssa.BasicBlock, ins *ssa.Select) {
	n := len(ins.States)
	choices := make([]int, 0, n+1)
	for k := 0; k < n; k++ {
		choices = append(choices, k)
	}
	if !ins.Blocking {
		choices = append(choices, -1)
	}
	for ci, k := range choices {
		s := st
		if ci < len(choices)-1 {
			s = st.clone()
			in.Stats.Forks++
		}
		tuple := in.newSym(&Sym{Kind: KSelect, V: ins, Typ: ins.Type()})
		tuple.Elems = make([]*Sym, 2+n)
		tuple.Elems[0] = in.constInt(s, int64(k))
		ev := Event{Kind: EvSelect, Instr: ins, SelIndex: k, SelN: n, Blocking: ins.Blocking}
		if k >= 0 {
			state := ins.States[k]
			ev.Addr = in.val(s, fi, state.Chan)
			ev.SelDir = state.Dir
			ev.Pos = state.Pos
			if state.Dir == types.SendOnly {
				ev.Val = in.val(s, fi, state.Send)
			} else {
				// position of the received value among recv states
				ri := 0
				for j := 0; j < k; j++ {
					if ins.States[j].Dir == types.RecvOnly {
						ri++
					}
				}
				r := in.newSym(&Sym{Kind: KRecv, V: ins, X: ev.Addr})
				if 2+ri < len(tuple.Elems) {
					tuple.Elems[2+ri] = r
				}
				ev.Res = r
			}
		}
		s.frames[fi].env[ins] = tuple
		in.emit(s, fi, ev)
		in.exec(s, fi, b, i+1, pred)
	}
}

func (in *Interp) evalCompare(st *State, op token.Token, x, y *Sym) (Abs, bool) {
	ax, ay := st.Abs(x), st.Abs(y)
	b := func(v bool) (Abs, bool) {
		if v {
			return Abs{K: True}, true
		}
		return Abs{K: False}, true
	}
	// len(S) against a constant where S is known to hold at least m elements on this path (the
	// result of appending single elements, a full slice of an array literal): decides the comparisons
	// that m settles, e.g. `len(append(list, x)) > 0` — prunes the infeasible "list still empty" branch.
	if ay.K == ConstV && ay.C.Kind() == constant.Int && x.Kind == KCall && x.Call != nil && x.Call.Builtin == "len" && len(x.Call.Args) == 1 {
		if m := st.minLen(x.Call.Args[0], 0); m > 0 {
			if cv, exact := constant.Int64Val(ay.C); exact {
				switch op {
				case token.GTR, token.NEQ:
					if m > cv {
						return b(true)
					}
				case token.GEQ:
					if m >= cv {
						return b(true)
					}
				case token.EQL, token.LEQ:
					if m > cv {
						return b(false)
					}
				case token.LSS:
					if m >= cv {
						return b(false)
					}
				}
			}
		}
	}
	switch op {
	case token.EQL, token.NEQ:
		eq, known := false, false
		switch {
		case ax.K == Nil && ay.K == Nil:
			eq, known = true, true
		case (ax.K == Nil && ay.K == NonNil) || (ax.K == NonNil && ay.K == Nil):
			eq, known = false, true
		case (ax.K == True || ax.K == False) && (ay.K == True || ay.K == False):
			eq, known = ax.K == ay.K, true
		case ax.K == ConstV && ay.K == ConstV:
			eq, known = constant.Compare(ax.C, token.EQL, ay.C), true
		}
		if !known {
			return Abs{}, false
		}
		if op == token.NEQ {
			eq = !eq
		}
		return b(eq)
	case token.LSS, token.LEQ, token.GTR, token.GEQ:
		if ax.K == ConstV && ay.K == ConstV && ax.C.Kind() != constant.Bool && ay.C.Kind() != constant.Bool {
			defer func() { recover() }()
			return b(constant.Compare(ax.C, op, ay.C))
		}
	}
	return Abs{}, false
}

// assume refines the store with "c is truth".
func (in *Interp) assume(st *State, c *Sym, truth bool) {
	if truth {
		st.abs[c] = Abs{K: True}
	} else {
		st.abs[c] = Abs{K: False}
	}
	switch c.Kind {
	case KUnOp:
		if c.Op == token.NOT {
			in.assume(st, c.X, !truth)
		}
	case KBinOp:
		if c.Op != token.EQL && c.Op != token.NEQ {
			return
		}
		eq := (c.Op == token.EQL) == truth
		ax, ay := st.Abs(c.X), st.Abs(c.Y)
		set := func(s *Sym, other Abs) {
			switch other.K {
			case Nil:
				if eq {
					st.abs[s] = Abs{K: Nil}
				} else {
					st.abs[s] = Abs{K: NonNil}
				}
			case True, False:
				k := other.K
				if !eq {
					if k == True {
						k = False
					} else {
						k = True
					}
				}
				st.abs[s] = Abs{K: k}
			case ConstV:
				if eq {
					st.abs[s] = other
				}
			}
		}
		if ax.K == Unknown && ay.K != Unknown {
			set(c.X, ay)
		} else if ay.K == Unknown && ax.K != Unknown {
			set(c.Y, ax)
		}
	}
}

// ---------------------------------------------------------------- calls

// functions documented to return a non-nil value
var nonNilCtors = map[string]bool{
	"fmt.Errorf": true, "errors.New": true,
}

func (in *Interp) callInfo(st *State, fi int, instr ssa.Instruction, cc *ssa.CallCommon) *CallInfo {
	ci := &CallInfo{Instr: instr, Common: cc, Pos: instr.Pos()}
	for _, a := range cc.Args {
		ci.Args = append(ci.Args, in.val(st, fi, a))
	}
	if cc.IsInvoke() {
		ci.Method = cc.Method
		ci.Recv = in.val(st, fi, cc.Value)
		return ci
	}
	switch f := cc.Value.(type) {
	case *ssa.Builtin:
		ci.Builtin = f.Name()
		return ci
	case *ssa.Function:
		ci.Static = f
	case *ssa.MakeClosure:
		ci.Static = f.Fn.(*ssa.Function)
		for _, bv := range f.Bindings {
			ci.Bindings = append(ci.Bindings, in.val(st, fi, bv))
		}
	default:
		s := in.val(st, fi, cc.Value).Strip(false)
		switch s.Kind {
		case KClosure:
			ci.Static = s.Fn
			ci.Bindings = s.Elems
		case KFunc:
			ci.Static = s.Fn
		default:
			ci.FnSym = s
		}
	}
	in.normalise(ci)
	return ci
}

// normalise sees through bound-method wrappers and fills Recv for methods.
func (in *Interp) normalise(ci *CallInfo) {
	if ci.Static == nil {
		return
	}
	if strings.HasPrefix(ci.Static.Synthetic, "bound method wrapper") && len(ci.Bindings) == 1 {
		if obj, ok := ci.Static.Object().(*types.Func); ok {
			recv := ci.Bindings[0]
			if types.IsInterface(obj.Type().(*types.Signature).Recv().Type()) {
				ci.Method = obj
				ci.Static = nil
				ci.Recv = recv
				ci.Bindings = nil
				return
			}
			if real := in.cfg.Prog.FuncValue(obj); real != nil {
				ci.Static = real
				ci.Recv = recv
				ci.Args = append([]*Sym{recv}, ci.Args...)
				ci.Bindings = nil
				return
			}
		}
	}
	if ci.Static.Signature.Recv() != nil && len(ci.Args) > 0 && ci.Recv == nil {
		ci.Recv = ci.Args[0]
	}
}

// FuncValueInfo builds a CallInfo for invoking a function-valued sym with no
// known arguments (used by models).
func (in *Interp) funcValueInfo(instr ssa.Instruction, f *Sym) *CallInfo {
	ci := &CallInfo{Instr: instr, Pos: instr.Pos()}
	s := f.Strip(false)
	switch s.Kind {
	case KClosure:
		ci.Static = s.Fn
		ci.Bindings = s.Elems
	case KFunc:
		ci.Static = s.Fn
	default:
		ci.FnSym = s
	}
	in.normalise(ci)
	return ci
}

func (in *Interp) shouldInline(st *State, ci *CallInfo) bool {
	if ci.Static == nil || ci.Static.Blocks == nil || in.cfg.Keep[ci.Static] {
		return false
	}
	if len(st.frames) > in.cfg.MaxDepth+2 {
		return false
	}
	// recursion guard
	for _, f := range st.frames {
		if f.fn == ci.Static {
			return false
		}
	}
	if ci.Static.Parent() != nil { // closure or anonymous function called directly
		return true
	}
	if in.cfg.Inline != nil && len(st.frames) <= in.cfg.MaxDepth {
		return in.cfg.Inline(ci, len(st.frames))
	}
	return false
}

// doCall performs a call (normal or deferred) and continues with k(result).
func (in *Interp) doCall(st *State, fi int, ci *CallInfo, instr ssa.Instruction, asDefer bool, k func(*State, *Sym)) {
	if ci.Builtin != "" {
		k(st, in.builtin(st, fi, ci, instr, asDefer))
		return
	}
	if in.shouldInline(st, ci) {
		in.emit(st, fi, Event{Kind: EvCall, Instr: instr, Call: ci, Inlined: true})
		in.enter(st, ci.Static, ci.Args, ci.Bindings, ci, asDefer, nil, func(st *State, out outcome) {
			if out.panic || out.goexit {
				in.unwind(st, fi)
				return
			}
			if out.noret {
				in.abandon(st, outcome{noret: true})
				return
			}
			var res *Sym
			switch len(out.results) {
			case 0:
			case 1:
				res = out.results[0]
			default:
				res = in.newSym(&Sym{Kind: KTuple, Elems: out.results})
			}
			k(st, res)
		})
		return
	}
	var res *Sym
	if v, ok := instr.(ssa.Value); ok {
		res = in.newSym(&Sym{Kind: KCall, V: v, Call: ci, Typ: v.Type(), Depth: fi})
		if o := ci.Obj(); o != nil && nonNilCtors[o.FullName()] {
			st.abs[res] = Abs{K: NonNil}
		}
	}
	var model *Model
	if in.cfg.Model != nil {
		model = in.cfg.Model(in, st, ci)
	}
	mayPanic := in.cfg.MayPanic != nil && in.cfg.MayPanic(ci) && !st.panicking
	if mayPanic {
		in.Stats.Forks++
		st2 := st.clone()
		in.emit(st2, fi, Event{Kind: EvCall, Instr: instr, Call: ci, Res: res, PanicsHere: true})
		st2.panicking = true
		st2.panicVal = in.newSym(&Sym{Kind: KPanicVal})
		in.unwind(st2, fi)
	}
	if in.cfg.MayGoexit != nil && in.cfg.MayGoexit(ci) && !st.panicking && !st.goexiting {
		in.Stats.Forks++
		st3 := st.clone()
		in.emit(st3, fi, Event{Kind: EvCall, Instr: instr, Call: ci, Res: res, GoexitHere: true})
		st3.goexiting = true
		in.unwind(st3, fi)
	}
	in.emit(st, fi, Event{Kind: EvCall, Instr: instr, Call: ci, Res: res})
	// closures handed to a callee we do not analyse may run there: forget their cells
	if model == nil {
		for _, a := range ci.Args {
			if a != nil && a.Strip(false).Kind == KClosure {
				cl := a.Strip(false)
				for k, cell := range cl.Elems {
					if !closureMayWrite(cl.Fn, k) {
						continue // the callee can only read this captured variable
					}
					delete(st.cells, cell)
					var t types.Type
					if cell.Typ != nil {
						if pt, ok := cell.Typ.Underlying().(*types.Pointer); ok {
							t = pt.Elem()
						}
					}
					st.cells[cell] = in.newSym(&Sym{Kind: KLoad, X: cell, Typ: t})
				}
			}
		}
	}
	if model != nil {
		if model.NoReturn {
			in.abandon(st, outcome{noret: true})
			return
		}
		if asDefer && model.Recovers && st.panicking {
			// modelled after the invoked cleanups below
		}
		run := func(st *State) {
			in.invokeAll(st, fi, ci, instr, model.Invoke, 0, func(st *State) {
				if asDefer && model.Recovers && st.panicking {
					st.panicking = false
					in.emit(st, fi, Event{Kind: EvRecover, Instr: instr, Call: ci})
				}
				k(st, res)
			})
		}
		if model.Maybe && len(model.Invoke) > 0 {
			in.Stats.Forks++
			st2 := st.clone()
			run(st)
			k(st2, res)
			return
		}
		run(st)
		return
	}
	k(st, res)
}

func (in *Interp) invokeAll(st *State, fi int, via *CallInfo, instr ssa.Instruction, fns []*Sym, i int, k func(*State)) {
	if i >= len(fns) {
		k(st)
		return
	}
	ci := in.funcValueInfo(instr, fns[i])
	cont := func(st *State) { in.invokeAll(st, fi, via, instr, fns, i+1, k) }
	if ci.Static != nil && ci.Static.Blocks != nil && len(st.frames) <= in.cfg.MaxDepth+2 {
		in.emit(st, fi, Event{Kind: EvCall, Instr: instr, Call: ci, Inlined: true, Via: via})
		in.enter(st, ci.Static, ci.Args, ci.Bindings, ci, false, via, func(st *State, out outcome) {
			if out.panic || out.goexit {
				in.unwind(st, fi)
				return
			}
			if out.noret {
				in.abandon(st, outcome{noret: true})
				return
			}
			cont(st)
		})
		return
	}
	mayPanic := in.cfg.MayPanic != nil && in.cfg.MayPanic(ci) && !st.panicking
	if mayPanic {
		st2 := st.clone()
		in.emit(st2, fi, Event{Kind: EvCall, Instr: instr, Call: ci, PanicsHere: true, Via: via})
		st2.panicking = true
		st2.panicVal = in.newSym(&Sym{Kind: KPanicVal})
		in.unwind(st2, fi)
	}
	if in.cfg.MayGoexit != nil && in.cfg.MayGoexit(ci) && !st.panicking && !st.goexiting {
		st3 := st.clone()
		in.emit(st3, fi, Event{Kind: EvCall, Instr: instr, Call: ci, GoexitHere: true, Via: via})
		st3.goexiting = true
		in.unwind(st3, fi)
	}
	in.emit(st, fi, Event{Kind: EvCall, Instr: instr, Call: ci, Via: via})
	cont(st)
}

func (in *Interp) abandon(st *State, out outcome) {
	top := st.frames[0]
	st.frames = st.frames[:0]
	top.k(st, out)
}

func (in *Interp) builtin(st *State, fi int, ci *CallInfo, instr ssa.Instruction, asDefer bool) *Sym {
	var res *Sym
	if v, ok := instr.(ssa.Value); ok {
		res = in.newSym(&Sym{Kind: KCall, V: v, Call: ci, Typ: v.Type(), Ops: ci.Args})
	}
	switch ci.Builtin {
	case "recover":
		// effective only when called directly by a deferred function
		fr := st.frames[fi]
		if st.panicking && fr.asDefer {
			st.panicking = false
			if res != nil {
				st.abs[res] = Abs{K: NonNil}
			}
			in.emit(st, fi, Event{Kind: EvRecover, Instr: instr, Call: ci, Res: res})
		} else if res != nil {
			st.abs[res] = Abs{K: Nil}
		}
		in.emit(st, fi, Event{Kind: EvCall, Instr: instr, Call: ci, Res: res})
		return res
	case "close":
		in.emit(st, fi, Event{Kind: EvClose, Instr: instr, Addr: ci.Args[0], Call: ci})
		return res
	case "len", "cap":
		// len/cap of a value known to be nil on this path is 0
		if res != nil && len(ci.Args) == 1 && (st.Abs(ci.Args[0]).K == Nil || IsNilConst(ci.Args[0])) {
			st.abs[res] = Abs{K: ConstV, C: constant.MakeInt64(0)}
		}
	}
	in.emit(st, fi, Event{Kind: EvCall, Instr: instr, Call: ci, Res: res})
	return res
}

// runDefers runs the pending deferred calls of frame fi in LIFO order.
func (in *Interp) runDefers(st *State, fi int, k func(*State)) {
	fr := st.frames[fi]
	if len(fr.defers) == 0 {
		k(st)
		return
	}
	d := fr.defers[len(fr.defers)-1]
	fr.defers = fr.defers[:len(fr.defers)-1]
	fr.running++
	in.doCall(st, fi, d.ci, d.ci.Instr, true, func(st *State, _ *Sym) {
		st.frames[fi].running--
		in.runDefers(st, fi, k)
	})
}

// unwind propagates a panic out of frame fi: its remaining defers run; if one of
// them recovers, the function returns through its Recover block.
func (in *Interp) unwind(st *State, fi int) {
	// a panic raised inside a deferred call while fi's defers are running:
	// keep running the remaining defers (Go semantics)
	in.runDefers(st, fi, func(st *State) {
		fr := st.frames[fi]
		if st.goexiting && !st.panicking {
			in.leave(st, fi, outcome{goexit: true})
			return
		}
		if !st.panicking {
			if fr.fn.Recover != nil {
				fr.visits = map[*ssa.BasicBlock]int{}
				in.exec(st, fi, fr.fn.Recover, 0, nil)
				return
			}
			var zeros []*Sym
			res := fr.fn.Signature.Results()
			for i := 0; i < res.Len(); i++ {
				zeros = append(zeros, in.newSym(&Sym{Kind: KZero, Typ: res.At(i).Type()}))
			}
			in.leave(st, fi, outcome{results: zeros})
			return
		}
		in.leave(st, fi, outcome{panic: true})
	})
}

// SliceElems returns the element syms of a slice built from an array literal
// (variadic argument lists), in index order.
func (in *Interp) SliceElems(st *State, s *Sym) []*Sym { return st.SliceElems(s) }

// SliceElems on a finished path.
func (p *Path) SliceElems(s *Sym) []*Sym { return p.st.SliceElems(s) }

// CellValue returns the value last stored in the cell addr on this path (nil if never stored).
func (p *Path) CellValue(addr *Sym) *Sym { return p.st.cells[addr] }

func (st *State) SliceElems(s *Sym) []*Sym {
	s = s.Strip(false)
	if s == nil || s.Kind != KSlice || s.X == nil || s.X.Kind != KAlloc {
		return nil
	}
	p, ok := s.X.Typ.Underlying().(*types.Pointer)
	if !ok {
		return nil
	}
	arr, ok := p.Elem().Underlying().(*types.Array)
	if !ok {
		return nil
	}
	var out []*Sym
	for i := 0; i < int(arr.Len()); i++ {
		a, ok := st.canon[ckey{base: s.X, idx: i, kind: KIndexAddr}]
		if !ok {
			return nil
		}
		v, ok := st.cells[a]
		if !ok {
			return nil
		}
		out = append(out, v)
	}
	return out
}

// closureMayWrite reports whether fn (or a closure nested in it) may store through
// its k-th free variable, or lets its address escape (anything but a plain load).
func closureMayWrite(fn *ssa.Function, k int) bool {
	if fn == nil || k >= len(fn.FreeVars) {
		return true
	}
	fv := fn.FreeVars[k]
	refs := fv.Referrers()
	if refs == nil {
		return true
	}
	for _, r := range *refs {
		switch r := r.(type) {
		case *ssa.UnOp:
			if r.Op != token.MUL {
				return true
			}
		case *ssa.DebugRef:
		case *ssa.FieldAddr, *ssa.IndexAddr:
			// address arithmetic on the captured value's own storage: may be written through
			return true
		case *ssa.MakeClosure:
			inner, ok := r.Fn.(*ssa.Function)
			if !ok {
				return true
			}
			for j, b := range r.Bindings {
				if b == ssa.Value(fv) && closureMayWrite(inner, j) {
					return true
				}
			}
		default:
			return true
		}
	}
	return false
}

// minLen: a lower bound for the length of slice value s on this path (0 when nothing is known).
func (st *State) minLen(s *Sym, d int) int64 {
	s = s.Strip(false)
	if s == nil || d > 8 {
		return 0
	}
	switch s.Kind {
	case KCall:
		if s.Call != nil && s.Call.Builtin == "append" && len(s.Call.Args) == 2 {
			return st.minLen(s.Call.Args[0], d+1) + st.minLen(s.Call.Args[1], d+1)
		}
	case KSlice:
		// the full slice of an array literal (how go/ssa packs variadic arguments)
		if sl, ok := s.V.(*ssa.Slice); ok && sl.Low == nil && sl.High == nil {
			if s.X != nil && s.X.Kind == KAlloc {
				if p, ok := s.X.Typ.Underlying().(*types.Pointer); ok {
					if a, ok := p.Elem().Underlying().(*types.Array); ok {
						return a.Len()
					}
				}
			}
		}
	}
	return 0
}
