// Package luax is the Lua front end (E9 of DESIGN.md): it parses an embedded
// Redis script with gopher-lua's parser and enumerates the paths of its
// straight-line-with-if body, carrying symbolic expression trees for every
// local. Nothing is executed: redis.call results, KEYS[i] and ARGV[i] are
// symbols; a path is (branch facts, redis.call effects in order, return value).
package luax

import (
	"fmt"
	"sort"
	"strings"

	"github.com/yuin/gopher-lua/ast"
	"github.com/yuin/gopher-lua/parse"
)

// V is a symbolic Lua value.
type V struct {
	Kind string // num str nil true false keys argv call redis op not neg unknown
	S    string // number / string literal, operator, function name
	N    int    // index for keys/argv; id for redis calls
	Args []*V
	Line int
}

func (v *V) String() string {
	if v == nil {
		return "<nil>"
	}
	switch v.Kind {
	case "num":
		return v.S
	case "str":
		return fmt.Sprintf("%q", v.S)
	case "nil", "true", "false":
		return v.Kind
	case "keys":
		return fmt.Sprintf("KEYS[%d]", v.N)
	case "argv":
		return fmt.Sprintf("ARGV[%d]", v.N)
	case "redis":
		return fmt.Sprintf("redis#%d(%s)", v.N, joinV(v.Args))
	case "call":
		return fmt.Sprintf("%s(%s)", v.S, joinV(v.Args))
	case "op":
		return fmt.Sprintf("(%s %s %s)", v.Args[0], v.S, v.Args[1])
	case "not":
		return "not " + v.Args[0].String()
	case "neg":
		return "-" + v.Args[0].String()
	}
	return "?" + v.S
}

func joinV(vs []*V) string {
	var s []string
	for _, v := range vs {
		s = append(s, v.String())
	}
	return strings.Join(s, ", ")
}

// Strip removes tonumber()/tostring() wrappers.
func (v *V) Strip() *V {
	for v != nil && v.Kind == "call" && (v.S == "tonumber" || v.S == "tostring") && len(v.Args) == 1 {
		v = v.Args[0]
	}
	return v
}

// Canon is a canonical rendering: tonumber stripped, operands of commutative
// operators (+, *, ==, ~=, math.min, math.max) sorted, a > b rewritten b < a.
func (v *V) Canon() string {
	v = v.Strip()
	if v == nil {
		return "<nil>"
	}
	switch v.Kind {
	case "op":
		a, b := v.Args[0].Canon(), v.Args[1].Canon()
		op := v.S
		switch op {
		case ">":
			op, a, b = "<", b, a
		case ">=":
			op, a, b = "<=", b, a
		}
		switch op {
		case "+", "*", "==", "~=", "and", "or":
			if a > b {
				a, b = b, a
			}
		}
		return "(" + a + " " + op + " " + b + ")"
	case "call":
		var as []string
		for _, a := range v.Args {
			as = append(as, a.Canon())
		}
		if v.S == "math.min" || v.S == "math.max" {
			sort.Strings(as)
		}
		return v.S + "(" + strings.Join(as, ", ") + ")"
	case "redis":
		var as []string
		for _, a := range v.Args {
			as = append(as, a.Canon())
		}
		return fmt.Sprintf("redis#%d(%s)", v.N, strings.Join(as, ", "))
	case "not":
		return "not " + v.Args[0].Canon()
	case "neg":
		return "-" + v.Args[0].Canon()
	}
	return v.String()
}

// Fact is a branch decision on a path.
type Fact struct {
	Cond  *V
	Truth bool
	Line  int
}

// Effect is one redis.call on a path.
type Effect struct {
	ID   int    // call-site id (order of appearance in the source)
	Cmd  string // upper-cased command
	Args []*V   // arguments after the command
	Line int
	Res  *V
}

type Path struct {
	Facts   []Fact
	Effects []Effect
	Ret     *V // nil when the script falls off the end
	Env     map[string]*V
}

type Script struct {
	Name    string
	Paths   []*Path
	MaxKeys int // highest KEYS index used
	MaxArgv int
	Calls   int // number of redis.call sites
}

type state struct {
	env     map[string]*V
	facts   []Fact
	effects []Effect
	ret     *V
	done    bool
}

func (s *state) clone() *state {
	n := &state{env: map[string]*V{}, ret: s.ret, done: s.done}
	for k, v := range s.env {
		n.env[k] = v
	}
	n.facts = append([]Fact(nil), s.facts...)
	n.effects = append([]Effect(nil), s.effects...)
	return n
}

type interp struct {
	sc      *Script
	siteIDs map[ast.Expr]int
	err     error
}

// Parse parses and enumerates the script.
func Parse(name, src string) (*Script, error) {
	stmts, err := parse.Parse(strings.NewReader(src), name)
	if err != nil {
		return nil, fmt.Errorf("lua parse %s: %w", name, err)
	}
	in := &interp{sc: &Script{Name: name}, siteIDs: map[ast.Expr]int{}}
	states := in.block(stmts, []*state{{env: map[string]*V{}}})
	if in.err != nil {
		return nil, in.err
	}
	for _, s := range states {
		in.sc.Paths = append(in.sc.Paths, &Path{Facts: s.facts, Effects: s.effects, Ret: s.ret, Env: s.env})
	}
	in.sc.Calls = len(in.siteIDs)
	if len(in.sc.Paths) == 0 {
		return nil, fmt.Errorf("lua %s: no paths", name)
	}
	return in.sc, nil
}

func (in *interp) fail(format string, a ...any) {
	if in.err == nil {
		in.err = fmt.Errorf("lua %s: unsupported construct: "+format, append([]any{in.sc.Name}, a...)...)
	}
}

func (in *interp) block(stmts []ast.Stmt, states []*state) []*state {
	for _, st := range stmts {
		var next []*state
		for _, s := range states {
			if s.done {
				next = append(next, s)
				continue
			}
			next = append(next, in.stmt(st, s)...)
		}
		states = next
		if len(states) > 4096 {
			in.fail("too many paths")
			return states
		}
	}
	return states
}

func (in *interp) stmt(st ast.Stmt, s *state) []*state {
	switch st := st.(type) {
	case *ast.LocalAssignStmt:
		for i, n := range st.Names {
			var v *V = &V{Kind: "nil"}
			if i < len(st.Exprs) {
				v = in.expr(st.Exprs[i], s)
			}
			s.env[n] = v
		}
		return []*state{s}
	case *ast.AssignStmt:
		for i, l := range st.Lhs {
			id, ok := l.(*ast.IdentExpr)
			if !ok {
				in.fail("assignment to non-identifier at line %d", st.Line())
				return []*state{s}
			}
			if i < len(st.Rhs) {
				s.env[id.Value] = in.expr(st.Rhs[i], s)
			}
		}
		return []*state{s}
	case *ast.FuncCallStmt:
		in.expr(st.Expr, s)
		return []*state{s}
	case *ast.IfStmt:
		c := in.expr(st.Condition, s)
		t, e := s.clone(), s
		t.facts = append(t.facts, Fact{Cond: c, Truth: true, Line: st.Line()})
		e.facts = append(e.facts, Fact{Cond: c, Truth: false, Line: st.Line()})
		out := in.block(st.Then, []*state{t})
		out = append(out, in.block(st.Else, []*state{e})...)
		return out
	case *ast.ReturnStmt:
		if len(st.Exprs) > 0 {
			s.ret = in.expr(st.Exprs[0], s)
		} else {
			s.ret = &V{Kind: "nil"}
		}
		s.done = true
		return []*state{s}
	case *ast.DoBlockStmt:
		return in.block(st.Stmts, []*state{s})
	}
	in.fail("statement %T at line %d", st, st.Line())
	return []*state{s}
}

func (in *interp) expr(e ast.Expr, s *state) *V {
	switch e := e.(type) {
	case *ast.NumberExpr:
		return &V{Kind: "num", S: e.Value, Line: e.Line()}
	case *ast.StringExpr:
		return &V{Kind: "str", S: e.Value, Line: e.Line()}
	case *ast.NilExpr:
		return &V{Kind: "nil"}
	case *ast.TrueExpr:
		return &V{Kind: "true"}
	case *ast.FalseExpr:
		return &V{Kind: "false"}
	case *ast.IdentExpr:
		if v, ok := s.env[e.Value]; ok {
			return v
		}
		return &V{Kind: "unknown", S: e.Value, Line: e.Line()}
	case *ast.AttrGetExpr:
		if id, ok := e.Object.(*ast.IdentExpr); ok && (id.Value == "KEYS" || id.Value == "ARGV") {
			if n, ok := e.Key.(*ast.NumberExpr); ok {
				k := 0
				fmt.Sscanf(n.Value, "%d", &k)
				if id.Value == "KEYS" {
					if k > in.sc.MaxKeys {
						in.sc.MaxKeys = k
					}
					return &V{Kind: "keys", N: k, Line: e.Line()}
				}
				if k > in.sc.MaxArgv {
					in.sc.MaxArgv = k
				}
				return &V{Kind: "argv", N: k, Line: e.Line()}
			}
			in.fail("non-constant KEYS/ARGV index at line %d", e.Line())
		}
		in.fail("attribute access at line %d", e.Line())
		return &V{Kind: "unknown"}
	case *ast.FuncCallExpr:
		name := funcName(e.Func)
		var args []*V
		for _, a := range e.Args {
			args = append(args, in.expr(a, s))
		}
		if name == "redis.call" || name == "redis.pcall" {
			id, ok := in.siteIDs[e]
			if !ok {
				id = len(in.siteIDs) + 1
				in.siteIDs[e] = id
			}
			cmd := ""
			if len(args) > 0 && args[0].Kind == "str" {
				cmd = strings.ToUpper(args[0].S)
			} else {
				in.fail("redis.call with a non-literal command at line %d", e.Line())
			}
			res := &V{Kind: "redis", N: id, S: cmd, Args: args, Line: e.Line()}
			s.effects = append(s.effects, Effect{ID: id, Cmd: cmd, Args: args[1:], Line: e.Line(), Res: res})
			return res
		}
		switch name {
		case "tonumber", "tostring", "math.min", "math.max", "math.floor", "math.ceil":
			return &V{Kind: "call", S: name, Args: args, Line: e.Line()}
		}
		in.fail("call of %q at line %d", name, e.Line())
		return &V{Kind: "unknown"}
	case *ast.ArithmeticOpExpr:
		return &V{Kind: "op", S: e.Operator, Args: []*V{in.expr(e.Lhs, s), in.expr(e.Rhs, s)}, Line: e.Line()}
	case *ast.RelationalOpExpr:
		return &V{Kind: "op", S: e.Operator, Args: []*V{in.expr(e.Lhs, s), in.expr(e.Rhs, s)}, Line: e.Line()}
	case *ast.LogicalOpExpr:
		return &V{Kind: "op", S: e.Operator, Args: []*V{in.expr(e.Lhs, s), in.expr(e.Rhs, s)}, Line: e.Line()}
	case *ast.StringConcatOpExpr:
		return &V{Kind: "op", S: "..", Args: []*V{in.expr(e.Lhs, s), in.expr(e.Rhs, s)}, Line: e.Line()}
	case *ast.UnaryNotOpExpr:
		return &V{Kind: "not", Args: []*V{in.expr(e.Expr, s)}, Line: e.Line()}
	case *ast.UnaryMinusOpExpr:
		return &V{Kind: "neg", Args: []*V{in.expr(e.Expr, s)}, Line: e.Line()}
	}
	in.fail("expression %T at line %d", e, e.Line())
	return &V{Kind: "unknown"}
}

func funcName(e ast.Expr) string {
	switch e := e.(type) {
	case *ast.IdentExpr:
		return e.Value
	case *ast.AttrGetExpr:
		if k, ok := e.Key.(*ast.StringExpr); ok {
			return funcName(e.Object) + "." + k.Value
		}
	}
	return "?"
}

// FactAbout returns the truth of a fact whose canonical condition equals canon
// on this path: +1 true, -1 false, 0 absent.
func (p *Path) FactAbout(canon string) int {
	for _, f := range p.Facts {
		if f.Cond.Canon() == canon {
			if f.Truth {
				return 1
			}
			return -1
		}
	}
	return 0
}

// EffectsOf returns the effects with the given command.
func (p *Path) EffectsOf(cmd string) []Effect {
	var out []Effect
	for _, e := range p.Effects {
		if e.Cmd == cmd {
			out = append(out, e)
		}
	}
	return out
}

// Describe renders a path for reports.
func (p *Path) Describe() []string {
	var out []string
	for _, f := range p.Facts {
		out = append(out, fmt.Sprintf("line %d: %s is %v", f.Line, f.Cond, f.Truth))
	}
	for _, e := range p.Effects {
		out = append(out, fmt.Sprintf("line %d: redis.call %s %s", e.Line, e.Cmd, joinV(e.Args)))
	}
	out = append(out, "return "+p.Ret.String())
	return out
}
