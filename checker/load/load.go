// Package load loads /repo's current working tree with go/packages and builds
// SSA for the root packages. Nothing is cached between runs.
package load

import (
	"fmt"
	"go/ast"
	"go/token"
	"go/types"
	"os"
	"path/filepath"
	"sort"
	"strings"

	"golang.org/x/tools/go/packages"
	"golang.org/x/tools/go/ssa"
	"golang.org/x/tools/go/ssa/ssautil"
)

const Module = "github.com/zeromicro/go-zero"

// Prog is a loaded, type-checked and SSA-built view of one module.
type Prog struct {
	Dir     string
	Fset    *token.FileSet
	Pkgs    []*packages.Package
	ByPath  map[string]*packages.Package
	SSA     *ssa.Program
	SSAPkgs map[string]*ssa.Package
	Config  string // description of the build configuration
	Errors  []string
	Overlay map[string][]byte // in-memory file contents used instead of the files on disk (self-test mutants)
}

type Options struct {
	Dir      string
	Patterns []string
	Env      []string // extra env (GOOS=..., GOFLAGS=...)
	Flags    []string // build flags (e.g. -modfile=...)
	Overlay  map[string][]byte
	Tests    bool
}

func RepoDir() string {
	if d := os.Getenv("GZV_REPO"); d != "" {
		return d
	}
	return "/repo"
}

// Load loads the patterns with full syntax and types for the root packages and
// builds SSA for them (dependencies: export data only).
func Load(o Options) (*Prog, error) {
	if o.Dir == "" {
		o.Dir = RepoDir()
	}
	if len(o.Patterns) == 0 {
		o.Patterns = []string{"./..."}
	}
	env := append(os.Environ(), "GOWORK=off", "GOFLAGS=-mod=mod", "GOPROXY=off", "GOSUMDB=off", "GOTOOLCHAIN=local")
	env = append(env, o.Env...)
	fset := token.NewFileSet()
	cfg := &packages.Config{
		Mode: packages.NeedName | packages.NeedFiles | packages.NeedCompiledGoFiles | packages.NeedImports |
			packages.NeedTypes | packages.NeedSyntax | packages.NeedTypesInfo | packages.NeedTypesSizes | packages.NeedModule |
			packages.NeedEmbedFiles | packages.NeedEmbedPatterns,
		Dir:        o.Dir,
		Env:        env,
		Fset:       fset,
		Tests:      o.Tests,
		BuildFlags: o.Flags,
		Overlay:    o.Overlay,
	}
	pkgs, err := packages.Load(cfg, o.Patterns...)
	if err != nil {
		return nil, fmt.Errorf("packages.Load: %w", err)
	}
	if len(pkgs) == 0 {
		return nil, fmt.Errorf("no packages loaded for %v in %s", o.Patterns, o.Dir)
	}
	p := &Prog{Dir: o.Dir, Fset: fset, Pkgs: pkgs, ByPath: map[string]*packages.Package{}, SSAPkgs: map[string]*ssa.Package{}, Overlay: o.Overlay}
	p.Config = strings.Join(o.Env, " ")
	if p.Config == "" {
		p.Config = "host"
	}
	for _, pk := range pkgs {
		p.ByPath[pk.PkgPath] = pk
		for _, e := range pk.Errors {
			p.Errors = append(p.Errors, pk.PkgPath+": "+e.Error())
		}
		if pk.Types == nil || pk.TypesInfo == nil {
			p.Errors = append(p.Errors, pk.PkgPath+": no type information")
		}
	}
	sort.Slice(p.Pkgs, func(i, j int) bool { return p.Pkgs[i].PkgPath < p.Pkgs[j].PkgPath })
	if len(p.Errors) > 0 {
		return p, nil
	}
	prog, spkgs := ssautil.Packages(pkgs, ssa.BuilderMode(0))
	p.SSA = prog
	for i, sp := range spkgs {
		if sp != nil {
			p.SSAPkgs[pkgs[i].PkgPath] = sp
		}
	}
	prog.Build()
	return p, nil
}

// Pkg returns the package with the given path relative to the module
// ("core/breaker") or absolute.
func (p *Prog) Pkg(rel string) *packages.Package {
	if pk := p.ByPath[rel]; pk != nil {
		return pk
	}
	return p.ByPath[Module+"/"+rel]
}

func (p *Prog) SSAPkg(rel string) *ssa.Package {
	if pk := p.SSAPkgs[rel]; pk != nil {
		return pk
	}
	return p.SSAPkgs[Module+"/"+rel]
}

// Func resolves "name" (package function) or "(*T).m" / "(T).m" / "T.m" in the
// package to its SSA function. nil if absent.
func (p *Prog) Func(pkgRel, name string) *ssa.Function {
	sp := p.SSAPkg(pkgRel)
	if sp == nil {
		return nil
	}
	if !strings.Contains(name, ".") {
		if f, ok := sp.Members[name].(*ssa.Function); ok {
			return f
		}
		return nil
	}
	ptr := false
	s := name
	if strings.HasPrefix(s, "(") {
		i := strings.Index(s, ")")
		recv := s[1:i]
		s = s[i+2:]
		if strings.HasPrefix(recv, "*") {
			ptr = true
			recv = recv[1:]
		}
		return p.method(sp, recv, s, ptr)
	}
	i := strings.Index(s, ".")
	return p.method(sp, s[:i], s[i+1:], false)
}

func (p *Prog) method(sp *ssa.Package, tname, mname string, ptr bool) *ssa.Function {
	obj := sp.Pkg.Scope().Lookup(tname)
	tn, ok := obj.(*types.TypeName)
	if !ok {
		return nil
	}
	named, ok := tn.Type().(*types.Named)
	if !ok {
		return nil
	}
	for i := 0; i < named.NumMethods(); i++ {
		m := named.Method(i)
		if m.Name() == mname {
			return p.SSA.FuncValue(m)
		}
	}
	_ = ptr
	return nil
}

// FuncOf returns the SSA function for a types.Func declared in a root package.
func (p *Prog) FuncOf(f *types.Func) *ssa.Function { return p.SSA.FuncValue(f) }

// Pos renders a position relative to the module dir.
func (p *Prog) Pos(pos token.Pos) string {
	if !pos.IsValid() {
		return "-"
	}
	ps := p.Fset.Position(pos)
	rel, err := filepath.Rel(p.Dir, ps.Filename)
	if err != nil {
		rel = ps.Filename
	}
	return fmt.Sprintf("%s:%d", rel, ps.Line)
}

// FuncDecl finds the syntax of a declared function.
func (p *Prog) FuncDecl(fn *ssa.Function) *ast.FuncDecl {
	if fn == nil {
		return nil
	}
	if d, ok := fn.Syntax().(*ast.FuncDecl); ok {
		return d
	}
	return nil
}

// AllFuncs lists every source function (including closures) of a package.
func (p *Prog) AllFuncs(pkgRel string) []*ssa.Function {
	sp := p.SSAPkg(pkgRel)
	if sp == nil {
		return nil
	}
	var out []*ssa.Function
	seen := map[*ssa.Function]bool{}
	var add func(f *ssa.Function)
	add = func(f *ssa.Function) {
		if f == nil || seen[f] || f.Blocks == nil {
			return
		}
		seen[f] = true
		out = append(out, f)
		for _, a := range f.AnonFuncs {
			add(a)
		}
	}
	for _, m := range sp.Members {
		switch m := m.(type) {
		case *ssa.Function:
			if m.Synthetic == "" {
				add(m)
			}
		case *ssa.Type:
			if named, ok := m.Type().(*types.Named); ok {
				for i := 0; i < named.NumMethods(); i++ {
					add(p.SSA.FuncValue(named.Method(i)))
				}
			}
		}
	}
	sort.Slice(out, func(i, j int) bool { return out[i].Pos() < out[j].Pos() })
	return out
}

// HasFile reports whether a repo-relative file was compiled in some loaded package.
func (p *Prog) HasFile(rel string) bool {
	want := filepath.Join(p.Dir, rel)
	for _, pk := range p.Pkgs {
		for _, f := range pk.CompiledGoFiles {
			if f == want {
				return true
			}
		}
		for _, f := range pk.EmbedFiles {
			if f == want {
				return true
			}
		}
		for _, f := range pk.OtherFiles {
			if f == want {
				return true
			}
		}
	}
	return false
}

// ReadFile reads a file of the analysed tree, honouring the overlay.
func (p *Prog) ReadFile(path string) ([]byte, error) {
	if b, ok := p.Overlay[path]; ok {
		return b, nil
	}
	return os.ReadFile(path)
}
