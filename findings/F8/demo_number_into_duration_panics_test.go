package mapping

import (
	"strings"
	"testing"
	"time"
)

// F8 (C08.R6): processFieldNotFromString asserted mapValue.(string) after testing only
// reflect.Kind == String; a JSON number (json.Number, kind String) supplied to a
// time.Duration field panicked the unmarshaller.
func TestDemoF8NumberIntoDurationDoesNotPanic(t *testing.T) {
	var v struct {
		D time.Duration `json:"d"`
	}
	defer func() {
		if r := recover(); r != nil {
			t.Fatalf("unmarshaller panicked on {\"d\": 5}: %v", r)
		}
	}()
	err := UnmarshalJsonReader(strings.NewReader(`{"d": 5}`), &v)
	if err == nil && v.D != 5 {
		t.Fatalf("accepted but stored %v", v.D)
	}
}
