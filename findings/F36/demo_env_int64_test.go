package mapping

import "testing"

// F36 (C08): correctly typed input is accepted and no input panics. processFieldWithEnvValue switched on
// `durationType.Kind()`, which is reflect.Int64: every int64 member with an env= option took the duration path —
// "10" was rejected ("missing unit in duration") and "10s" made reflect.Set panic (a time.Duration into an int64).
// Place in core/mapping and run: go test -run TestDemoEnvInt64 ./core/mapping/
func TestDemoEnvInt64(t *testing.T) {
	defer func() {
		if r := recover(); r != nil {
			t.Fatalf("the unmarshaller panicked: %v", r)
		}
	}()
	t.Setenv("F36_DEMO_INT64", "10")
	var v struct {
		F int64 `json:"f,env=F36_DEMO_INT64"`
	}
	if err := UnmarshalJsonBytes([]byte(`{}`), &v); err != nil || v.F != 10 {
		t.Errorf("env value 10 for an int64 member: F=%d err=%v", v.F, err)
	}
	t.Setenv("F36_DEMO_INT64_BAD", "10s") // proc.Env caches lookups: a second name
	var w struct {
		F int64 `json:"f,env=F36_DEMO_INT64_BAD"`
	}
	if err := UnmarshalJsonBytes([]byte(`{}`), &w); err == nil {
		t.Errorf("env value 10s accepted for an int64 member: F=%d", w.F)
	}
}
