package sqlx

import (
	"context"
	"database/sql"
	"runtime"
	"testing"

	"github.com/DATA-DOG/go-sqlmock"
)

// F12 (C14): "commits if and only if the body returned nil". A body that ends its goroutine with
// runtime.Goexit (what t.FailNow / t.Fatal do when called inside a transaction body) has not returned nil,
// yet the deferred finisher of transactOnConn sees no panic and a nil error and commits the half-done work.
func TestDemoGoexitInsideTransactionBodyMustNotCommit(t *testing.T) {
	db, mock, err := sqlmock.New()
	if err != nil {
		t.Fatal(err)
	}
	defer db.Close()
	mock.ExpectBegin()
	mock.ExpectExec("insert").WillReturnResult(sqlmock.NewResult(1, 1))
	mock.ExpectRollback()

	done := make(chan struct{})
	go func() {
		defer close(done)
		_ = transactOnConn(context.Background(), db, begin, func(ctx context.Context, s Session) error {
			if _, err := s.ExecCtx(ctx, "insert into t values (1)"); err != nil {
				return err
			}
			runtime.Goexit() // the body never returns
			return nil
		})
	}()
	<-done
	if err := mock.ExpectationsWereMet(); err != nil {
		t.Fatalf("the transaction whose body never returned was not rolled back: %v", err)
	}
	_ = sql.ErrTxDone
}
