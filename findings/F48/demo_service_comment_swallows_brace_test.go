package format

// F48 (C20.R19): ServiceStmt.Format wrote the closing brace of a service without routes on the line of the opening
// brace, head comments included: `service foo {` / `// c` / `}` was printed as `service foo {// c` + `}`, which the next
// pass reads as `service foo { // c}` — the comment swallows the brace and the third pass is a syntax error.
// Place in tools/goctl/pkg/parser/api/format/ and run: go test -run TestF48 ./pkg/parser/api/format/

import (
	"bytes"
	"testing"
)

func TestF48ServiceCommentKeepsBrace(t *testing.T) {
	cur := []byte("syntax = \"v1\"\n\nservice foo {\n\t// c\n}\n")
	var outs []string
	for pass := 1; pass <= 3; pass++ {
		var out bytes.Buffer
		if err := Source(cur, &out); err != nil {
			t.Fatalf("pass %d: the formatter's own output does not parse: %v\nearlier passes: %q", pass, err, outs)
		}
		outs = append(outs, out.String())
		cur = out.Bytes()
	}
	if outs[0] != outs[1] || outs[1] != outs[2] {
		t.Fatalf("not idempotent: %q", outs)
	}
}
