package mapping

import "testing"

// F16 (C08): whether a nested struct field without an explicit `optional` must be supplied depends on the tag
// key in use (it is required iff one of its members is required *under that key*), but the answer is memoised in
// structRequiredCache by the struct type alone. Once a form unmarshaler has looked at the type (member required
// under `form`), a JSON document that omits the field is rejected although every member is optional under `json`.
func TestDemoNestedRequirednessIsPerTagKey(t *testing.T) {
	type inner struct {
		X string `json:"x,optional" form:"x"`
	}
	type outer struct {
		In inner `json:"in" form:"in"`
	}
	form := NewUnmarshaler("form", WithStringValues())
	var o1 outer
	if err := form.Unmarshal(map[string]any{}, &o1); err == nil {
		t.Fatal("form: x is required, an empty form must be rejected")
	}
	var o2 outer
	if err := UnmarshalJsonBytes([]byte(`{}`), &o2); err != nil {
		t.Fatalf("json: every member of `in` is optional, {} meets all constraints, but: %v", err)
	}
}
