package cache

import (
	"math/rand"
	"sync"
	"testing"
	"time"

	"github.com/alicebob/miniredis/v2"
	"github.com/zeromicro/go-zero/core/mathx"
	"github.com/zeromicro/go-zero/core/stores/redis"
)

// F33 (C06): after a write returns, the key it wrote is invalidated — if the DEL fails, by the retry task. The retry
// task kept the caller's variadic slice: a caller that reuses its key buffer after Del returned made the retry (one
// second later) delete the buffer's new content and leave the written key stale until its TTL.
// Place in core/stores/cache and run: go test -run TestDemoRetryDeletesTheKeysOfTheFailedDel ./core/stores/cache/
func TestDemoRetryDeletesTheKeysOfTheFailedDel(t *testing.T) {
	r, err := miniredis.Run()
	if err != nil {
		t.Fatal(err)
	}
	defer r.Close()

	cn := cacheNode{
		rds:            redis.New(r.Addr()),
		r:              rand.New(rand.NewSource(time.Now().UnixNano())),
		lock:           new(sync.Mutex),
		unstableExpiry: mathx.NewUnstable(expiryDeviation),
		stat:           NewStat("any"),
		errNotFound:    errTestNotFound,
	}
	if err := cn.Set("user:1", "stale row"); err != nil {
		t.Fatal(err)
	}
	if err := cn.Set("user:2", "valid row"); err != nil {
		t.Fatal(err)
	}

	buf := make([]string, 0, 4)
	buf = append(buf[:0], "user:1")
	r.SetError("transient failure") // the DEL of the write fails once
	if err := cn.Del(buf...); err != nil {
		t.Fatal(err)
	}
	r.SetError("")
	buf = append(buf[:0], "user:2") // the caller reuses its buffer for the next operation
	_ = buf

	deadline := time.Now().Add(5 * time.Second)
	for time.Now().Before(deadline) && r.Exists("user:1") && r.Exists("user:2") {
		time.Sleep(50 * time.Millisecond)
	}
	if r.Exists("user:1") {
		t.Errorf("user:1 was written (its DEL failed once) and is still cached after the retry ran")
	}
	if !r.Exists("user:2") {
		t.Errorf("user:2 was never written, but the retry of another key's invalidation deleted it")
	}
}
