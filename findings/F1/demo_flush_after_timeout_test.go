package handler

import (
	"net/http"
	"net/http/httptest"
	"testing"
	"time"
)

// Demonstrates F1 (C04): after the deadline fired and the 503 timeout response was
// written, a late Flush by the handler appends the handler's buffered output
// (and copies its headers) to the client's response: a mixture.
func TestDemoFlushAfterTimeoutMixesResponses(t *testing.T) {
	release := make(chan struct{})
	finished := make(chan struct{})
	h := TimeoutHandler(20 * time.Millisecond)(http.HandlerFunc(func(w http.ResponseWriter, r *http.Request) {
		defer close(finished)
		w.Header().Set("X-Work", "partial")
		w.Write([]byte("partial-work-output"))
		<-release // ignores the deadline
		w.(http.Flusher).Flush()
	}))
	req := httptest.NewRequest(http.MethodGet, "http://localhost", http.NoBody)
	resp := httptest.NewRecorder()
	h.ServeHTTP(resp, req)
	if resp.Code != http.StatusServiceUnavailable {
		t.Fatalf("want 503 at the deadline, got %d", resp.Code)
	}
	close(release)
	<-finished
	if got := resp.Body.String(); got != reason {
		t.Fatalf("body after the timeout response changed to %q (want only %q)", got, reason)
	}
	if v := resp.Header().Get("X-Work"); v != "" {
		t.Fatalf("handler header leaked into the timeout response: %q", v)
	}
}
