package format

// F49 (C20.R20, known finding): (*Writer).write post-processes the joined text of a statement with
// ReplaceAll(" \n","\n") and ReplaceAll("\n ","\n") — the inside of multi-line tokens included. A raw string value
// whose continuation line starts with blanks loses one of them per pass: the token text (the value of the info entry)
// of the formatted source differs from the original, and formatting again changes it once more.
// Place in tools/goctl/pkg/parser/api/format/ and run: go test -run TestF49 ./pkg/parser/api/format/   (FAILS: known finding)

import (
	"bytes"
	"strings"
	"testing"
)

func TestF49RawStringKeepsItsText(t *testing.T) {
	const value = "`line1\n   line2`"
	src := "syntax = \"v1\"\n\ninfo (\n\tdesc: " + value + "\n)\n"
	var once, twice bytes.Buffer
	if err := Source([]byte(src), &once); err != nil {
		t.Fatal(err)
	}
	if !strings.Contains(once.String(), value) {
		t.Errorf("the raw string value changed: want %q inside\n%q", value, once.String())
	}
	if err := Source(once.Bytes(), &twice); err != nil {
		t.Fatal(err)
	}
	if once.String() != twice.String() {
		t.Errorf("not idempotent:\n%q\n%q", once.String(), twice.String())
	}
}
