package codec

import "testing"

// F24a (C18, fixed): an empty ciphertext (a request body of "\n" base64-decodes to zero bytes) made pkcs5Unpadding
// index src[-1]: a panic (500 through RecoverHandler) instead of the 400 the cryption middleware gives for an
// undecodable body.
func TestDemoEmptyCiphertextIsAnError(t *testing.T) {
	key := []byte("q4t7w!z%C*F-JaNdRgUjXn2r5u8x/A?D")
	defer func() {
		if r := recover(); r != nil {
			t.Errorf("EcbDecrypt(empty) panicked: %v", r)
		}
	}()
	if _, err := EcbDecrypt(key, nil); err == nil {
		t.Errorf("EcbDecrypt(empty) returned no error")
	}
}

// F24b (C18, known finding — the behaviour is pinned by TestAesEcb "not enough block, just nil"): a ciphertext that is
// not a whole number of AES blocks is not rejected. CryptBlocks only logs and leaves the output zeroed, the unpadding
// accepts the zeros, and the caller (the cryption middleware, then the handler) receives NUL bytes as the plaintext
// with a nil error.
func TestDemoPartialBlockCiphertextIsAnError(t *testing.T) {
	key := []byte("q4t7w!z%C*F-JaNdRgUjXn2r5u8x/A?D")
	partial := make([]byte, 20) // not a multiple of 16
	for i := range partial {
		partial[i] = 7
	}
	if out, err := EcbDecrypt(key, partial); err == nil {
		t.Errorf("a 20-byte ciphertext was \"decrypted\" to %d bytes %v with a nil error", len(out), out)
	}
}
