package hash

import (
	"fmt"
	"testing"
)

// F27 (C15, known finding): virtual-node names are repr(node)+strconv.Itoa(i) with nothing in between, so
// "h:1"+"10" == "h:11"+"0": nodes whose representations are prefix-related share virtual nodes.
//   - removing a node moves keys that were NOT on it (Remove("h:1") walks indices 0…99 and deletes the virtual nodes
//     "h:110"…"h:119" that belong to "h:11");
//   - the mapping depends on the insertion order (the shared slot's bucket keeps insertion order).
func TestDemoPrefixRelatedNodes(t *testing.T) {
	const n = 20000
	owner := func(h *ConsistentHash) []string {
		out := make([]string, n)
		for i := range out {
			v, _ := h.Get(fmt.Sprintf("key-%d", i))
			out[i] = fmt.Sprint(v)
		}
		return out
	}
	// removal moves keys of other nodes
	h := NewConsistentHash()
	h.AddWithWeight("h:1", 10)
	h.Add("h:11")
	h.Add("other")
	before := owner(h)
	h.Remove("h:1")
	after := owner(h)
	moved := 0
	for i := range before {
		if before[i] != "h:1" && before[i] != after[i] {
			moved++
		}
	}
	if moved > 0 {
		t.Errorf("removing h:1 moved %d of %d keys that were not on it", moved, n)
	}
	// order dependence
	a := NewConsistentHash()
	a.Add("h:1")
	a.Add("h:11")
	b := NewConsistentHash()
	b.Add("h:11")
	b.Add("h:1")
	oa, ob := owner(a), owner(b)
	diff := 0
	for i := range oa {
		if oa[i] != ob[i] {
			diff++
		}
	}
	if diff > 0 {
		t.Errorf("the same node set added in a different order maps %d of %d keys differently", diff, n)
	}
}
