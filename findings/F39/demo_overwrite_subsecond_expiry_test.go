package collection

// F39 (C16.R3 / C12.R7): overwriting a key of the in-memory Cache with an expiry below one wheel tick (1 s) went
// through TimingWheel.MoveTimer, which runs the expiry callback at once for such a delay: the callback deletes the
// key, i.e. the value just written. The same SetWithExpire on a new key (SetTimer clamps to one tick) lives ~1 s.
// Place in core/collection/ and run: go test -run TestF39 ./core/collection/

import (
	"testing"
	"time"
)

func TestF39OverwriteWithSubSecondExpiry(t *testing.T) {
	c, err := NewCache(time.Minute)
	if err != nil {
		t.Fatal(err)
	}
	c.Set("k", 1)
	c.SetWithExpire("k", 2, 900*time.Millisecond)
	time.Sleep(100 * time.Millisecond) // well inside the 900 ms
	v, ok := c.Get("k")
	if !ok || v != 2 {
		t.Fatalf("the value just written is gone 100 ms after SetWithExpire(k, 2, 900ms): got (%v, %v)", v, ok)
	}
	// control: a new key with the same expiry
	c.SetWithExpire("fresh", 3, 900*time.Millisecond)
	time.Sleep(100 * time.Millisecond)
	if v, ok := c.Get("fresh"); !ok || v != 3 {
		t.Fatalf("control: new key missing: (%v, %v)", v, ok)
	}
	// and it still expires
	time.Sleep(2500 * time.Millisecond)
	if _, ok := c.Get("k"); ok {
		t.Fatal("the overwritten key never expired")
	}
}
