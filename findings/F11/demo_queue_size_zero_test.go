package collection

import "testing"

// F11 (C16): Queue must behave as a FIFO for every size parameter. NewQueue(0) creates an empty ring with a
// growth step of 0, so the first Put indexes elements[0] of an empty slice and panics.
func TestDemoQueueOfSizeZeroIsAFifo(t *testing.T) {
	for _, size := range []int{0, -3} {
		q := NewQueue(size)
		for i := 0; i < 5; i++ {
			q.Put(i)
		}
		for i := 0; i < 5; i++ {
			v, ok := q.Take()
			if !ok || v.(int) != i {
				t.Fatalf("size %d: take %d gave (%v,%v)", size, i, v, ok)
			}
		}
		if !q.Empty() {
			t.Fatalf("size %d: not empty after taking everything", size)
		}
	}
}
