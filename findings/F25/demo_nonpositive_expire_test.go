package cache

import (
	"errors"
	"testing"
	"time"

	"github.com/alicebob/miniredis/v2"
	"github.com/zeromicro/go-zero/core/stores/redis"
	"github.com/zeromicro/go-zero/core/syncx"
)

// F25 (C06): every entry written carries a finite TTL derived from the requested or configured expiry, never a
// persistent key. SetWithExpire(key, v, d) with d <= 0 turned into SetexCtx(…, 0 or negative seconds), which the
// redis layer sends as SET without EX: the entry never expires.
func TestDemoNonPositiveExpireStillGetsATTL(t *testing.T) {
	mr := miniredis.RunT(t)
	c := NewNode(redis.New(mr.Addr()), syncx.NewSingleFlight(), NewStat("demo-f25"), errors.New("not found"))
	for i, d := range []time.Duration{0, -time.Second} {
		key := []string{"demo-f25-zero", "demo-f25-negative"}[i]
		if err := c.SetWithExpire(key, "v", d); err != nil {
			t.Fatalf("SetWithExpire(%v): %v", d, err)
		}
		if !mr.Exists(key) {
			continue // refusing to write is fine too
		}
		if ttl := mr.TTL(key); ttl <= 0 {
			t.Errorf("SetWithExpire(%q, v, %v) wrote a persistent key (no TTL)", key, d)
		}
	}
}
