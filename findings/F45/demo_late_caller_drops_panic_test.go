package mr

// F45 (C10.R11): the caller's final select waits on the context, the panic channel and the output. When the caller
// reaches it late — here: the context's Done() takes a few milliseconds — the pipeline has already finished: a user
// panic is waiting in the panic channel AND the output is closed. select picks at random among ready cases, so about
// half of those calls returned ErrReduceNoOutput with the user's panic silently dropped.
// Place in core/mr/ and run: go test -run TestF45 ./core/mr/

import (
	"context"
	"testing"
	"time"
)

type slowDoneCtx struct{ context.Context }

func (c slowDoneCtx) Done() <-chan struct{} {
	time.Sleep(2 * time.Millisecond)
	return c.Context.Done()
}

func TestF45LateCallerDropsPanic(t *testing.T) {
	const rounds = 60
	dropped := 0
	for i := 0; i < rounds; i++ {
		func() {
			defer func() {
				if r := recover(); r == nil {
					dropped++
				}
			}()
			_, _ = MapReduce(func(source chan<- int) {
				panic("generator failed")
			}, func(item int, w Writer[int], cancel func(error)) {
			}, func(pipe <-chan int, w Writer[int], cancel func(error)) {
			}, WithContext(slowDoneCtx{context.Background()}))
		}()
	}
	if dropped > 0 {
		t.Fatalf("%d of %d calls returned normally although the generator panicked", dropped, rounds)
	}
}
