package mapping

import "testing"

// F32 (C08): whenever the unmarshaller accepts an input, every supplied numeric field lies inside its declared range
// and every non-optional field was supplied. A map field whose value arrives as a JSON *string* was decoded by
// encoding/json straight into the typed map: the element struct's tags (range, required, default) were never looked at.
func TestDemoMapGivenAsStringIsValidatedLikeAnyOtherMap(t *testing.T) {
	type inner struct {
		A int    `json:"a,range=[1:5]"`
		B string `json:"b"`
	}
	var viaObject struct {
		M map[string]inner `json:"m"`
	}
	if err := UnmarshalJsonBytes([]byte(`{"m":{"k":{"a":100}}}`), &viaObject); err == nil {
		t.Fatalf("control: the same map given as an object must be rejected, got %+v", viaObject)
	}
	var viaString struct {
		M map[string]inner `json:"m"`
	}
	if err := UnmarshalJsonBytes([]byte(`{"m":"{\"k\":{\"a\":100}}"}`), &viaString); err == nil {
		t.Fatalf("a = 100 is outside range=[1:5] and b is missing, but the map given as a JSON string was accepted: %+v", viaString.M)
	}
}
