package handler

import (
	"net/http"
	"net/http/httptest"
	"testing"
	"time"
)

// F28 (C04): without any timeout the caller observes the work's complete result — its status, headers and body. The
// buffering writer latched the FIRST WriteHeader, informational ones included: a handler that sends 103 Early Hints and
// then its final 404 was buffered as "103", the 404 was dropped as superfluous, and the client received 200.
func TestDemoFinalStatusAfterInformationalOne(t *testing.T) {
	h := TimeoutHandler(time.Second)(http.HandlerFunc(func(w http.ResponseWriter, r *http.Request) {
		w.Header().Set("Link", "</style.css>; rel=preload")
		w.WriteHeader(http.StatusEarlyHints)
		w.WriteHeader(http.StatusNotFound)
		_, _ = w.Write([]byte("nf"))
	}))
	srv := httptest.NewServer(h)
	defer srv.Close()
	resp, err := http.Get(srv.URL)
	if err != nil {
		t.Fatal(err)
	}
	defer resp.Body.Close()
	if resp.StatusCode != http.StatusNotFound {
		t.Fatalf("the handler's final status is 404, the client got %d", resp.StatusCode)
	}
}
