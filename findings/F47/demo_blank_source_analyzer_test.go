package parser

// F47 (C20.R2b): parser.Parse on a source without statements (blank, or comments only) built an AST with zero
// statements and no error; convert2API then read a.Stmts[0]: an index-out-of-range panic instead of an error.
// Place in tools/goctl/pkg/parser/api/parser/ and run: go test -run TestF47 ./pkg/parser/api/parser/

import "testing"

func TestF47BlankSourceDoesNotCrash(t *testing.T) {
	for _, src := range []string{"  \n", "// only a comment\n", "\n\n\t\n"} {
		func() {
			defer func() {
				if r := recover(); r != nil {
					t.Fatalf("Parse(%q) panicked: %v", src, r)
				}
			}()
			_, _ = Parse("", src)
		}()
	}
}
