package zrpc

// F46 (C02.R14): zrpc.NewServer built its interceptors — the adaptive shedder among them — BEFORE c.SetUp() ran
// load.Disable() for the dev/test/rt/pre modes: the first rpc server of such a process kept a live shedder and answered
// ResourceExhausted under load although load shedding is disabled for the mode (rest.NewServer calls SetUp first).
// Run alone — load.Disable() is process-wide and one-way:
//   go test -run TestF46DevModeRpcServerNeverSheds ./zrpc/

import (
	"context"
	"net"
	"sync"
	"sync/atomic"
	"testing"
	"time"

	"github.com/zeromicro/go-zero/core/conf"
	"github.com/zeromicro/go-zero/core/stat"
	"github.com/zeromicro/go-zero/internal/mock"
	"google.golang.org/grpc"
	"google.golang.org/grpc/codes"
	"google.golang.org/grpc/credentials/insecure"
	"google.golang.org/grpc/status"
)

type f46Server struct {
	mock.UnimplementedDepositServiceServer
	inside  int64
	release chan struct{}
}

func (s *f46Server) Deposit(ctx context.Context, req *mock.DepositRequest) (*mock.DepositResponse, error) {
	if req.Amount < 0 { // the probe
		return &mock.DepositResponse{Ok: true}, nil
	}
	atomic.AddInt64(&s.inside, 1)
	<-s.release
	// an error: moves the in-flight average only, the capacity estimate stays at its initial value
	return nil, status.Error(codes.Unavailable, "slow")
}

func TestF46DevModeRpcServerNeverSheds(t *testing.T) {
	l, err := net.Listen("tcp", "127.0.0.1:0")
	if err != nil {
		t.Fatal(err)
	}
	addr := l.Addr().String()
	l.Close()

	var c RpcServerConf
	if err := conf.LoadFromYamlBytes([]byte("Name: f46\nMode: dev\nListenOn: "+addr+"\nCpuThreshold: 10\nTimeout: 0\nLog:\n  Level: severe\n"), &c); err != nil {
		t.Fatal(err)
	}
	impl := &f46Server{release: make(chan struct{})}
	srv, err := NewServer(c, func(server *grpc.Server) { mock.RegisterDepositServiceServer(server, impl) })
	if err != nil {
		t.Fatal(err)
	}
	go srv.Start()
	defer srv.Stop()

	conn, err := grpc.Dial(addr, grpc.WithTransportCredentials(insecure.NewCredentials()), grpc.WithBlock(), grpc.WithTimeout(5*time.Second))
	if err != nil {
		t.Fatal(err)
	}
	defer conn.Close()
	cli := mock.NewDepositServiceClient(conn)

	stop := make(chan struct{})
	defer close(stop)
	for i := 0; i < 4; i++ {
		go func() {
			for {
				select {
				case <-stop:
					return
				default:
				}
			}
		}()
	}
	deadline := time.Now().Add(20 * time.Second)
	for stat.CpuUsage() < 50 && time.Now().Before(deadline) {
		time.Sleep(50 * time.Millisecond)
	}
	if stat.CpuUsage() < 50 {
		t.Skip("no cpu usage available on this platform, cannot overload")
	}

	const slow = 60
	var wg sync.WaitGroup
	for i := 0; i < slow; i++ {
		wg.Add(1)
		go func() {
			defer wg.Done()
			cli.Deposit(context.Background(), &mock.DepositRequest{Amount: 1})
		}()
	}
	for atomic.LoadInt64(&impl.inside) < slow {
		time.Sleep(time.Millisecond)
	}
	for i := 0; i < slow/2; i++ {
		impl.release <- struct{}{}
	}
	time.Sleep(100 * time.Millisecond)

	for i := 0; i < 20; i++ {
		_, err := cli.Deposit(context.Background(), &mock.DepositRequest{Amount: -1})
		if status.Code(err) == codes.ResourceExhausted {
			close(impl.release)
			wg.Wait()
			t.Fatalf("Mode: dev (load shedding disabled), cpu %dm, %d calls in flight: probe #%d was shed: %v", stat.CpuUsage(), slow/2, i, err)
		}
	}
	close(impl.release)
	wg.Wait()
}
