package format

import (
	"bytes"
	"strings"
	"testing"
)

// F30 (C20): for every syntactically valid .api source formatting succeeds. scanDocument kept its "saw '*'" state
// across other runes, so a block comment containing a '*' and, later, a '/' ended at that '/': `/* a * b / c */` is
// scanned as the comment `/* a * b /` followed by the source ` c */` — a valid file is rejected.
func TestDemoBlockCommentEndsAtStarSlashOnly(t *testing.T) {
	src := "syntax = \"v1\"\n\n/* a * b / c */\ntype A {\n\tName string `json:\"name\"`\n}\n"
	var b bytes.Buffer
	if err := Source([]byte(src), &b); err != nil {
		t.Fatalf("a valid source with a block comment containing '*' and '/' is rejected: %v", err)
	}
	if !strings.Contains(b.String(), "/* a * b / c */") {
		t.Fatalf("the comment did not survive formatting:\n%s", b.String())
	}
}
