package mr

import (
	"context"
	"testing"
	"time"
)

// F26 (C10): "when … the context ends, or any user function panics, the call returns — without deadlocking — …".
// A recovered panic is handed to the caller on an unbuffered channel. When the caller has already left its select
// the send blocks for ever, and what the panicking goroutine would do next is what the others wait for:
//   - the reducer writes its result and then panics: the caller has the result and waits for the output channel to
//     be closed — which the reducer goroutine does only after the (blocked) send;
//   - the deadline passes and then the generator panics: the caller drains the source — which the generator
//     goroutine closes only after the (blocked) send.
func TestDemoLatePanicDoesNotHangTheCall(t *testing.T) {
	run := func(name string, call func()) {
		done := make(chan struct{})
		go func() {
			defer func() { recover(); close(done) }()
			call()
		}()
		select {
		case <-done:
		case <-time.After(3 * time.Second):
			t.Errorf("%s: the call never returns", name)
		}
	}
	run("reducer writes, then panics", func() {
		MapReduce(func(source chan<- int) { source <- 1 },
			func(item int, w Writer[int], cancel func(error)) { w.Write(item) },
			func(pipe <-chan int, w Writer[int], cancel func(error)) {
				for range pipe {
				}
				w.Write(7)
				panic("after write")
			})
	})
	run("deadline passes, then the generator panics", func() {
		ctx, cancel := context.WithTimeout(context.Background(), 20*time.Millisecond)
		defer cancel()
		MapReduce(func(source chan<- int) {
			source <- 1
			time.Sleep(100 * time.Millisecond)
			panic("generator")
		}, func(item int, w Writer[int], cancel func(error)) { w.Write(item) },
			func(pipe <-chan int, w Writer[int], cancel func(error)) {
				for range pipe {
				}
			}, WithContext(ctx))
	})
}
