package mapping

// F42 (C08.R12): the walk along a dotted key (`json:"a.b"`) wrapped every step in the ancestor-searching valuer, so a
// required member a.b that was NOT supplied was "found" as a same-named key of an enclosing object.
// Place in core/mapping/ and run: go test -run TestF42 ./core/mapping/

import "testing"

func TestF42DottedKeyDoesNotReadAncestors(t *testing.T) {
	var v struct {
		B int `json:"a.b"`
	}
	// a.b is required and NOT supplied; the top-level "b" is a different key
	err := UnmarshalJsonBytes([]byte(`{"a":{},"b":5}`), &v)
	if err == nil {
		t.Fatalf("required member a.b was not supplied, yet the input was accepted with B=%d (taken from the top-level b)", v.B)
	}
	// control: supplied
	if err := UnmarshalJsonBytes([]byte(`{"a":{"b":7},"b":5}`), &v); err != nil || v.B != 7 {
		t.Fatalf("control: %v %d", err, v.B)
	}
}
