package mapping

import "testing"

// F15 (C08): input meeting all declared constraints is accepted, whatever was unmarshalled before. The parsed
// form of a slice default is memoised in defaultCache under the default's *text* alone, although it is computed
// differently for string elements (grouped segments -> []string) and for everything else (JSON -> []any of
// json.Number/bool/...). Two fields of different element kinds with the same default text share one entry: after
// a []bool field has been defaulted from "[false,true]", a []string field with the same default is rejected.
func TestDemoSliceDefaultDoesNotDependOnEarlierTypes(t *testing.T) {
	type bools struct {
		V []bool `json:"v,default=[false,true]"`
	}
	type strs struct {
		V []string `json:"v,default=[false,true]"`
	}
	var b bools
	if err := UnmarshalJsonBytes([]byte(`{}`), &b); err != nil {
		t.Fatal(err)
	}
	var s strs
	if err := UnmarshalJsonBytes([]byte(`{}`), &s); err != nil {
		t.Fatalf("[]string field with default=[false,true] rejected after a []bool field used the same default text: %v", err)
	}
	if len(s.V) != 2 || s.V[0] != "false" || s.V[1] != "true" {
		t.Fatalf("got %v", s.V)
	}
}
