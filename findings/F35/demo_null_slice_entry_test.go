package mapping

import "testing"

// F35 (C08): no input makes the unmarshaller panic. A null entry of a map whose elements are slices reached fillSlice,
// whose "type mismatch" hint called Type() on reflect.ValueOf(nil): reflect panicked instead of an error being returned
// (the sibling element kinds — map, struct, scalar — answer "type mismatch").
// Place in core/mapping and run: go test -run TestDemoNullSliceEntryIsAnError ./core/mapping/
func TestDemoNullSliceEntryIsAnError(t *testing.T) {
	defer func() {
		if r := recover(); r != nil {
			t.Fatalf("the unmarshaller panicked: %v", r)
		}
	}()
	var v struct {
		M map[string][]string `json:"m"`
	}
	if err := UnmarshalJsonBytes([]byte(`{"m":{"k":null}}`), &v); err == nil {
		t.Errorf("accepted, M = %v", v.M)
	}
	var w struct {
		M map[string][]int `json:"m"`
	}
	if err := UnmarshalJsonBytes([]byte(`{"m":{"a":[1],"k":null}}`), &w); err == nil {
		t.Errorf("accepted, M = %v", w.M)
	}
}
