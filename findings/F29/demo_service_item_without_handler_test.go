package format

import (
	"bytes"
	"testing"
)

// F29 (C20): the scanner and parser report errors for invalid sources rather than crashing. parseServiceItemStmt
// returned a service item that holds only its @doc when a '}' followed the @doc; with one more '}' behind it the
// parser reported no error at all, and the formatter dereferenced the missing @handler / route.
func TestDemoServiceItemWithoutHandlerIsASyntaxError(t *testing.T) {
	for _, src := range []string{
		`service s { @doc "x" } }`,
		"service s {\n\t@doc \"x\"\n}\n}\n",
	} {
		func() {
			defer func() {
				if r := recover(); r != nil {
					t.Errorf("%q: format.Source panicked: %v", src, r)
				}
			}()
			var b bytes.Buffer
			if err := Source([]byte(src), &b); err == nil {
				t.Errorf("%q: accepted, output %q", src, b.String())
			}
		}()
	}
}
