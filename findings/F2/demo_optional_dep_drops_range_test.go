package mapping

import "testing"

// F2 (C08.R1): toOptionsWithContext rebuilt the options of an `optional=dep` field without
// Range (and Inherit), so an out-of-range value was accepted whenever the Optional flag
// had to be re-resolved. Place in core/mapping and run: go test -run TestDemoF2 ./core/mapping/
func TestDemoF2OptionalDepKeepsRange(t *testing.T) {
	var v struct {
		A int `json:"a,optional=b,range=[1:5]"`
		B int `json:"b,optional"`
	}
	err := UnmarshalJsonMap(map[string]any{"a": 100, "b": 1}, &v)
	if err == nil {
		t.Fatalf("out-of-range value accepted: A=%d", v.A)
	}
	var w struct {
		A int `json:"a,optional=!b,range=[1:5]"`
		B int `json:"b,optional"`
	}
	if err := UnmarshalJsonMap(map[string]any{"a": 100}, &w); err == nil {
		t.Fatalf("out-of-range value accepted with optional=!b: A=%d", w.A)
	}
}
