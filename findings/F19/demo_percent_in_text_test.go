package format

import (
	"bytes"
	"strings"
	"testing"
)

// F19 (C20): the formatted text parses to the same description and formatting is idempotent. Writer.WriteText
// hands token text to fmt.Fprintf as the *format*, so every '%' in a doc string or comment is interpreted:
// `@doc "100% sure %d"` comes out as `@doc "100%!s(MISSING)ure %!d(MISSING)"`, and grows again on the next pass.
func TestDemoPercentInTextSurvivesFormatting(t *testing.T) {
	src := "syntax = \"v1\"\n\nservice demo {\n\t@doc \"100% sure %d\"\n\t@handler ping // 50% of calls\n\tget /ping\n}\n"
	var once bytes.Buffer
	if err := Source([]byte(src), &once); err != nil {
		t.Fatal(err)
	}
	if !strings.Contains(once.String(), `"100% sure %d"`) || !strings.Contains(once.String(), "// 50% of calls") {
		t.Fatalf("text with %% was rewritten by the formatter:\n%s", once.String())
	}
	var twice bytes.Buffer
	if err := Source(once.Bytes(), &twice); err != nil {
		t.Fatal(err)
	}
	if once.String() != twice.String() {
		t.Fatalf("not idempotent:\n%s\n---\n%s", once.String(), twice.String())
	}
}
