package syncx

import (
	"testing"
	"time"
)

// F31 (C05): "after all holders have finished, including by panic, the full capacity is available again".
// Pool.Get counts the slot (created++) before it calls the user's create function; when create panics the count is
// never taken back: with limit 1 the next Get blocks for ever although nothing is outstanding.
func TestDemoPoolSlotComesBackWhenCreatePanics(t *testing.T) {
	first := true
	p := NewPool(1, func() any {
		if first {
			first = false
			panic("cannot create")
		}
		return "resource"
	}, func(any) {})
	func() {
		defer func() { recover() }()
		p.Get()
	}()
	got := make(chan any, 1)
	go func() { got <- p.Get() }()
	select {
	case v := <-got:
		if v != "resource" {
			t.Fatalf("got %v", v)
		}
	case <-time.After(2 * time.Second):
		t.Fatal("Get blocks although no resource is outstanding: the slot of the failed creation was never given back")
	}
}
