package conf

import (
	"reflect"
	"testing"
)

// F14 (C17): the same document rendered as JSON and as YAML must load identically. A YAML null reaches the
// YAML→JSON converter as an untyped nil, for which toStringKeyMap has no case: the default branch renders it
// with lang.Repr, so the JSON text holds "" where the JSON rendering of the document holds null. A numeric
// field then fails with a type mismatch, list elements fail to parse, although {"port": null} loads.
func TestDemoYamlNullLoadsLikeJsonNull(t *testing.T) {
	type C struct {
		Name string         `json:",optional"`
		Port int            `json:",optional"`
		P    *int           `json:",optional"`
		L    []int          `json:",optional"`
		M    map[string]int `json:",optional"`
	}
	cases := []struct{ json, yaml string }{
		{`{"Port": null}`, "Port: null\n"},
		{`{"Port": null}`, "Port: ~\n"},
		{`{"Port": null}`, "Port:\n"},
		{`{"Name": null, "P": null, "M": null}`, "Name: null\nP: null\nM: null\n"},
		{`{"L": [1, null, 3]}`, "L: [1, null, 3]\n"},
	}
	for _, cs := range cases {
		var j, y C
		ej := LoadFromJsonBytes([]byte(cs.json), &j)
		ey := LoadFromYamlBytes([]byte(cs.yaml), &y)
		if (ej == nil) != (ey == nil) {
			t.Errorf("verdict differs for %q / %q: json err=%v, yaml err=%v", cs.json, cs.yaml, ej, ey)
			continue
		}
		if ej == nil && !reflect.DeepEqual(j, y) {
			t.Errorf("values differ for %q / %q: json=%+v yaml=%+v", cs.json, cs.yaml, j, y)
		}
	}
}
