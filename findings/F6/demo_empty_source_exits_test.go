package format

import (
	"bytes"
	"os"
	"os/exec"
	"testing"
)

// F6 (C20.R2): format.Source → parser.New → scanner.MustNewScanner → log.Fatalln: an empty
// source terminates the whole process instead of returning an error.
// Place in tools/goctl/pkg/parser/api/format and run (with the alternate modfile, offline):
//   go test -modfile=/verif/standins/goctl.alt.mod -run TestDemoF6 ./pkg/parser/api/format/
func TestDemoF6EmptySourceReturnsError(t *testing.T) {
	if os.Getenv("F6_CHILD") == "1" {
		var buf bytes.Buffer
		err := Source([]byte(""), &buf)
		if err == nil {
			os.Exit(3)
		}
		os.Exit(0) // an error was returned: the behaviour the property asks for
	}
	cmd := exec.Command(os.Args[0], "-test.run=TestDemoF6EmptySourceReturnsError")
	cmd.Env = append(os.Environ(), "F6_CHILD=1")
	out, err := cmd.CombinedOutput()
	if err != nil {
		t.Fatalf("Source(empty) did not return: the process exited (%v) with output %q", err, out)
	}
}
