package kube

// F37 (C13.R13): a deletion the watch missed reaches OnDelete as a cache.DeletedFinalStateUnknown tombstone
// (client-go: "OnDelete will get the final state of the item if it is known, otherwise it will get an object of
// type DeletedFinalStateUnknown"). Before the repair the handler treated it as a foreign object: the addresses
// of the deleted Endpoints object stayed published.
// Place in zrpc/resolver/internal/kube/ and run: go test -run TestF37 ./zrpc/resolver/internal/kube/

import (
	"testing"

	v1 "k8s.io/api/core/v1"
	"k8s.io/client-go/tools/cache"
)

func TestF37TombstoneDelete(t *testing.T) {
	var published []string
	calls := 0
	h := NewEventHandler(func(addrs []string) {
		calls++
		published = append([]string(nil), addrs...)
	})
	eps := &v1.Endpoints{Subsets: []v1.EndpointSubset{{Addresses: []v1.EndpointAddress{{IP: "10.0.0.1"}, {IP: "10.0.0.2"}}}}}
	h.OnAdd(eps, false)
	if len(published) != 2 {
		t.Fatalf("setup: published %v", published)
	}
	// the object was deleted while the watch was disconnected: the informer's re-list delivers a tombstone
	h.OnDelete(cache.DeletedFinalStateUnknown{Key: "ns/svc", Obj: eps})
	if len(published) != 0 {
		t.Fatalf("the deleted object's addresses are still published: %v (update calls: %d)", published, calls)
	}
}
