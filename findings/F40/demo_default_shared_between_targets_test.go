package mapping

// F40 (C08.R15): the parsed default of a slice field was memoised process-wide as the decoded JSON value, and the
// filling path stores maps (and nested values behind `any`) found in it as they are: every target whose field was
// absent received the *same* map. One owner editing its own result rewrote the default of every later target.
// Place in core/mapping/ and run: go test -run TestF40 ./core/mapping/

import "testing"

func TestF40DefaultSharedBetweenTargets(t *testing.T) {
	type T struct {
		M []map[string]any `json:"m,default=[{\"a\":1}]"`
	}
	var a, b T
	if err := UnmarshalJsonBytes([]byte(`{}`), &a); err != nil {
		t.Fatal(err)
	}
	if len(a.M) != 1 || len(a.M[0]) != 1 {
		t.Fatalf("setup: %v", a.M)
	}
	a.M[0]["a"] = "changed" // a's owner edits its own configuration
	a.M[0]["x"] = 2
	if err := UnmarshalJsonBytes([]byte(`{}`), &b); err != nil {
		t.Fatal(err)
	}
	if len(b.M) != 1 || len(b.M[0]) != 1 || b.M[0]["x"] != nil {
		t.Fatalf("b was given the declared default [{a:1}] but holds %v: the default is shared with a", b.M)
	}
}
