package mapping

import (
	"math"
	"testing"
)

// F22 (C08): every supplied numeric field lies inside its declared range. validateNumberRange rejects a value only
// when an ordered comparison with a bound is true; NaN is unordered against everything, so no comparison is true and
// NaN is accepted for every range. "NaN" parses as a float, so it is reachable through string-sourced values:
// `json:",string"` fields, form, path and header parameters.
func TestDemoNaNIsOutsideEveryRange(t *testing.T) {
	var viaString struct {
		F float64 `json:"f,string,range=[1:5]"`
	}
	if err := UnmarshalJsonBytes([]byte(`{"f":"NaN"}`), &viaString); err == nil {
		t.Errorf("json string \"NaN\" accepted for range=[1:5]; F=%v", viaString.F)
	}
	var viaForm struct {
		F float64 `form:"f,range=[1:5]"`
	}
	form := NewUnmarshaler("form", WithStringValues())
	if err := form.Unmarshal(map[string]any{"f": "nan"}, &viaForm); err == nil && math.IsNaN(viaForm.F) {
		t.Errorf("form value nan accepted for range=[1:5]; F=%v", viaForm.F)
	}
}
