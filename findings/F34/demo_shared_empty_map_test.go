package mapping

import "testing"

// F34 (C08): the target holds exactly the supplied values. An absent, non-optional map member was filled from a
// package-level empty map, and generateMap's same-type shortcut stored that very map in the target: every caller got
// the same map, so what one caller put into its result appeared in the next caller's result — and in absent nested
// structs, which are filled from the same shared map.
// Place in core/mapping and run: go test -run TestDemoAbsentMapIsNotShared ./core/mapping/
func TestDemoAbsentMapIsNotShared(t *testing.T) {
	type conf struct {
		M map[string]any `json:"m"`
	}
	var first conf
	if err := UnmarshalJsonBytes([]byte(`{}`), &first); err != nil {
		t.Fatal(err)
	}
	first.M["polluted"] = 1 // the caller owns its result

	var second conf
	if err := UnmarshalJsonBytes([]byte(`{}`), &second); err != nil {
		t.Fatal(err)
	}
	if len(second.M) != 0 {
		t.Errorf("an unrelated call returned M = %v for the input {}", second.M)
	}

	type inner struct {
		Polluted int `json:"polluted,optional"`
	}
	type outer struct {
		In inner `json:"in,optional"`
		X  inner `json:"x"`
	}
	var o outer
	if err := UnmarshalJsonBytes([]byte(`{}`), &o); err != nil {
		t.Fatal(err)
	}
	if o.X.Polluted != 0 {
		t.Errorf("an absent nested struct got polluted = %d from another caller's result", o.X.Polluted)
	}
}
