package collection

import (
	"sync"
	"testing"
	"time"

	"github.com/zeromicro/go-zero/core/timex"
)

// F3 (C12.R6): moveTask encoded a lazy move as circle=(steps-1)/n, diff=pos-oldPos, which is
// only right when the holding slot lies ahead of the cursor. Place in core/collection and run
//   go test -run TestDemoF3 ./core/collection/
// The sweep drives every (first delay, ticks before the move, new delay) on a 10-slot wheel
// and requires the timer to fire exactly floor(d/interval) ticks after the move.
func TestDemoF3MoveTimerFiresAtDueTick(t *testing.T) {
	const n = 10
	bad, total := 0, 0
	var first string
	for d1 := 1; d1 <= 2*n+1; d1 += 3 {
		for wait := 0; wait < d1 && wait < n+2; wait++ {
			for d2 := 1; d2 <= 2*n+1; d2 += 2 {
				total++
				ticker := timex.NewFakeTicker()
				var mu sync.Mutex
				tick, firedAt := 0, []int{}
				tw, _ := NewTimingWheelWithTicker(time.Second, n, func(k, v any) {
					mu.Lock()
					firedAt = append(firedAt, tick)
					mu.Unlock()
				}, ticker)
				step := func() {
					mu.Lock()
					tick++
					mu.Unlock()
					ticker.Tick()
					// a Drain round trip guarantees the tick was processed by the run loop
					tw.SetTimer("sync", 0, time.Hour)
					time.Sleep(200 * time.Microsecond)
				}
				tw.SetTimer("k", 1, time.Duration(d1)*time.Second)
				for i := 0; i < wait; i++ {
					step()
				}
				tw.MoveTimer("k", time.Duration(d2)*time.Second)
				tw.SetTimer("sync", 0, time.Hour)
				for i := 0; i < d2+2*n+2; i++ {
					step()
				}
				time.Sleep(2 * time.Millisecond)
				mu.Lock()
				got := append([]int(nil), firedAt...)
				mu.Unlock()
				tw.Stop()
				want := wait + d2
				if len(got) != 1 || got[0] != want {
					bad++
					if first == "" {
						first = time.Duration(d1).String()
						t.Logf("first failure: set delay %d, %d ticks, move delay %d: fired at %v, want [%d]", d1, wait, d2, got, want)
					}
				}
			}
		}
	}
	if bad > 0 {
		t.Fatalf("%d of %d (set, wait, move) combinations fire at the wrong tick", bad, total)
	}
}
