package format

// Demonstration of finding F10 (C20, rule C20.R2b): before fix b43aefd a route written without a path —
// an invalid source — made format.Source panic (index out of range in parsePathExpr: values[0] on an
// empty token list) instead of returning a syntax error.
// Place in tools/goctl/pkg/parser/api/format/ and run
//   go test -modfile=/verif/standins/goctl.alt.mod -run TestF10 ./pkg/parser/api/format/
// Fails (panics) on 12179a8, passes on b43aefd.

import (
	"bytes"
	"testing"
)

func TestF10RouteWithoutPathIsAnErrorNotACrash(t *testing.T) {
	for _, src := range []string{
		"syntax = \"v1\"\nservice foo {\n\t@handler h\n\tget (Req)\n}\n",
		"syntax = \"v1\"\nservice foo {\n\t@handler h\n\tget\n}\n",
		"syntax = \"v1\"\nservice foo {\n\t@handler h\n\tget returns (R)\n}\n",
	} {
		var buf bytes.Buffer
		if err := Source([]byte(src), &buf); err == nil {
			t.Errorf("no error for %q", src)
		}
	}
}
