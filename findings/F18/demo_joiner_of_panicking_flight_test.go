package syncx

import (
	"sync"
	"testing"
	"time"
)

// F18 (C07): every caller of SingleFlight.Do/DoEx receives the value and error of its own execution or of an
// overlapping one. When the leading call's function panics, makeCall releases the waiters with the call object
// untouched: a caller that joined the flight gets (nil, nil) — a success that no execution produced.
func TestDemoJoinerOfPanickingFlightGetsAnError(t *testing.T) {
	g := NewSingleFlight()
	started := make(chan struct{})
	release := make(chan struct{})
	var wg sync.WaitGroup
	wg.Add(1)
	go func() {
		defer wg.Done()
		defer func() { recover() }()
		g.Do("k", func() (any, error) {
			close(started)
			<-release
			panic("boom")
		})
	}()
	<-started
	type res struct {
		v   any
		err error
	}
	out := make(chan res, 1)
	go func() {
		v, err := g.Do("k", func() (any, error) { return "own", nil })
		out <- res{v, err}
	}()
	time.Sleep(50 * time.Millisecond) // let the second caller join the flight
	close(release)
	wg.Wait()
	r := <-out
	if r.v == nil && r.err == nil {
		t.Fatalf("a caller that joined a flight whose function panicked got (nil, nil): neither its own result nor an error")
	}
}
