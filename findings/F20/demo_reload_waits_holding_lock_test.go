package internal

import (
	"context"
	"testing"
	"time"
)

// F20 (C13): "after any sequence of registry events, including reconnects with a reload, every listener is notified
// after each change". cluster.reload takes c.lock, closes c.done and then waits for the watch goroutines
// (c.watchGroup.Wait()) while still holding the lock. A watch goroutine whose select has both an event and the
// closed done channel ready may pick the event (Go chooses at random among ready cases) and call
// handleWatchEvents, which starts with c.lock.RLock(): it blocks behind reload's write lock, reload blocks behind
// it, and every later Monitor / Unmonitor / NewSubscriber on that cluster blocks on c.lock.
//
// The demo registers, in the cluster's own routine group, a goroutine that does exactly what watchStream does on that
// schedule: it sees done closed and then applies one more event.
func TestDemoReloadDoesNotWaitForWatchersWhileHoldingTheLock(t *testing.T) {
	c := newCluster([]string{"localhost:2379"})
	done := c.done
	c.watchGroup.Run(func() {
		<-done // the reload has started (it holds c.lock and is about to wait for us)
		c.handleWatchEvents(context.Background(), watchKey{key: "any"}, nil)
	})

	finished := make(chan struct{})
	go func() {
		c.reload(nil) // no watchers: nothing is restarted, the client is not used
		close(finished)
	}()

	select {
	case <-finished:
	case <-time.After(2 * time.Second):
		t.Fatal("reload never returns: it waits for a watch goroutine that is waiting for the lock reload holds")
	}
}
