package mapping

// F43 (C08.R16): the dispatch tests the kind of the dereferenced member type and hands on the type itself; for a
// pointer-to-map member (or map / slice element) reflect.Type.Key() was called on the pointer type: a panic on valid input.
// Place in core/mapping/ and run: go test -run TestF43 ./core/mapping/

import "testing"

func TestF43PointerToMap(t *testing.T) {
	t.Run("member", func(t *testing.T) {
		var v struct {
			M *map[string]any `json:"m"`
		}
		if err := UnmarshalJsonBytes([]byte(`{"m":{"size":1}}`), &v); err != nil {
			t.Fatal(err)
		}
		if v.M == nil || len(*v.M) != 1 {
			t.Fatalf("got %v", v.M)
		}
	})
	t.Run("map element", func(t *testing.T) {
		var v struct {
			M map[string]*map[string]int `json:"m"`
		}
		if err := UnmarshalJsonBytes([]byte(`{"m":{"a":{"b":1}}}`), &v); err != nil {
			t.Fatal(err)
		}
		if v.M["a"] == nil || (*v.M["a"])["b"] != 1 {
			t.Fatalf("got %v", v.M)
		}
	})
	t.Run("slice element", func(t *testing.T) {
		var v struct {
			M []*map[string]any `json:"m"`
		}
		if err := UnmarshalJsonBytes([]byte(`{"m":[{"a":1}]}`), &v); err != nil {
			t.Fatal(err)
		}
		if len(v.M) != 1 || v.M[0] == nil || len(*v.M[0]) != 1 {
			t.Fatalf("got %v", v.M)
		}
	})
}
