package discov

import (
	"sort"
	"testing"

	"github.com/zeromicro/go-zero/core/discov/internal"
)

// F4a (C13.R1): container.addKv re-pointed mapping[key] without dropping the key from
// values[previous value]: after a key is updated in place, both values stay in Values().
// Place in core/discov:  go test -run TestDemoF4a ./core/discov/
func TestDemoF4aKeyUpdatedInPlace(t *testing.T) {
	c := newContainer(false)
	c.OnAdd(internal.KV{Key: "k", Val: "v1"})
	c.OnAdd(internal.KV{Key: "k", Val: "v2"})
	got := c.getValues()
	sort.Strings(got)
	if len(got) != 1 || got[0] != "v2" {
		t.Fatalf("after put k=v1, put k=v2: Values() = %v, want [v2]", got)
	}
}
