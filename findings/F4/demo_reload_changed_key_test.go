package internal

import (
	"sync"
	"testing"
)

type demoView struct {
	lock sync.Mutex
	m    map[string]string
}

// a key-only remover, like discov's own subscriber container
func (v *demoView) OnAdd(kv KV)    { v.lock.Lock(); v.m[kv.Key] = kv.Val; v.lock.Unlock() }
func (v *demoView) OnDelete(kv KV) { v.lock.Lock(); delete(v.m, kv.Key); v.lock.Unlock() }

// F4b (C13.R5): a reload snapshot in which key k changed its value dispatched OnAdd(k,new) and
// then OnDelete(k,old); the subscriber removes by key, so k vanished from the view.
// Place in core/discov/internal:  go test -run TestDemoF4b ./core/discov/internal/
func TestDemoF4bReloadWithChangedKey(t *testing.T) {
	c := newCluster([]string{"demo:2379"})
	key := watchKey{key: "svc"}
	view := &demoView{m: map[string]string{}}
	c.watchers[key] = &watchValue{
		listeners: []UpdateListener{view},
		values:    map[string]string{"svc/1": "10.0.0.1:80"},
	}
	view.m["svc/1"] = "10.0.0.1:80"
	c.handleChanges(key, []KV{{Key: "svc/1", Val: "10.0.0.2:80"}})
	if got := view.m["svc/1"]; got != "10.0.0.2:80" {
		t.Fatalf("after reload with svc/1 changed to 10.0.0.2:80 the view holds %q (all: %v)", got, view.m)
	}
}
