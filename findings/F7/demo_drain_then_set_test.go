package collection

import (
	"sync/atomic"
	"testing"
	"time"

	"github.com/zeromicro/go-zero/core/timex"
)

// F7 (C12.R3): drainAll unlinked every entry but left the keys in tw.timers, so a SetTimer for a
// drained key took the "existing timer" path, updated the detached entry and never fired.
func TestDemoF7SetAfterDrainFires(t *testing.T) {
	ticker := timex.NewFakeTicker()
	var fired int32
	tw, _ := NewTimingWheelWithTicker(time.Second, 10, func(k, v any) { atomic.AddInt32(&fired, 1) }, ticker)
	defer tw.Stop()
	tw.SetTimer("k", 1, 3*time.Second)
	var drained int32
	tw.Drain(func(k, v any) { atomic.AddInt32(&drained, 1) })
	time.Sleep(50 * time.Millisecond)
	tw.SetTimer("k", 2, 3*time.Second)
	for i := 0; i < 25; i++ {
		ticker.Tick()
		time.Sleep(2 * time.Millisecond)
	}
	time.Sleep(50 * time.Millisecond)
	if atomic.LoadInt32(&drained) != 1 || atomic.LoadInt32(&fired) != 1 {
		t.Fatalf("drained=%d (want 1), timer set after Drain fired %d times (want 1)", drained, fired)
	}
}
