package format

// F44 (C20.R18): ServiceItemStmt.Format wrote the line terminator of its @doc unconditionally; an @doc that formats to
// nothing (`@doc ""`) left an empty line on the first pass which the second pass — the @doc is gone by then — does not
// produce: formatting was not idempotent.
// Place in tools/goctl/pkg/parser/api/format/ and run: go test -run TestF44 ./pkg/parser/api/format/

import (
	"bytes"
	"testing"
)

func TestF44EmptyDocLine(t *testing.T) {
	for _, src := range []string{
		"syntax = \"v1\"\n\nservice foo {\n\t@doc \"\"\n\t@handler bar\n\tget /ping\n}\n",
		"syntax = \"v1\"\n\nservice foo {\n\t@doc (\n\t\ta: \"\"\n\t)\n\t@handler bar\n\tget /ping\n}\n",
	} {
		var once, twice bytes.Buffer
		if err := Source([]byte(src), &once); err != nil {
			t.Fatalf("first pass: %v", err)
		}
		if err := Source(once.Bytes(), &twice); err != nil {
			t.Fatalf("second pass: %v\n%s", err, once.String())
		}
		if once.String() != twice.String() {
			t.Fatalf("formatting is not idempotent\nsource:\n%s\nfirst pass:\n%q\nsecond pass:\n%q", src, once.String(), twice.String())
		}
	}
}
