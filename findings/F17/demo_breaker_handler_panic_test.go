package handler

import (
	"net/http"
	"net/http/httptest"
	"testing"

	"github.com/zeromicro/go-zero/core/stat"
)

// F17 (C01): "a panic counts as failure and is re-raised". BreakerHandler decides Accept/Reject in a deferred
// closure from the recorded status code, which still holds its initial 200 when the handler panicked before
// writing a status: every panicking request is booked as a success and the breaker never opens. (In the default
// chain RecoverHandler sits inside the breaker and turns the panic into a 500; with Middlewares.Recover=false, a
// custom chain, or the exported middleware used on its own the panic reaches the breaker.)
func TestDemoBreakerHandlerCountsPanicAsFailure(t *testing.T) {
	metrics := stat.NewMetrics("demo-f17")
	h := BreakerHandler(http.MethodGet, "/demo-f17-panics", metrics)(http.HandlerFunc(func(w http.ResponseWriter, r *http.Request) {
		panic("boom")
	}))
	serve := func() (code int, panicked bool) {
		defer func() {
			if recover() != nil {
				panicked = true
			}
		}()
		rec := httptest.NewRecorder()
		h.ServeHTTP(rec, httptest.NewRequest(http.MethodGet, "/demo-f17-panics", http.NoBody))
		return rec.Code, false
	}
	for i := 0; i < 1000; i++ {
		serve()
	}
	rejected := 0
	for i := 0; i < 100; i++ {
		if code, panicked := serve(); !panicked && code == http.StatusServiceUnavailable {
			rejected++
		}
	}
	if rejected == 0 {
		t.Fatalf("after 1000 panicking requests the breaker rejected %d of the next 100: panics are recorded as successes", rejected)
	}
}
