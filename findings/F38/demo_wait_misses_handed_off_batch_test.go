package executors

// F38 (C11.R12, known finding): a threshold batch is taken out of the container under pe.lock by the producer that
// completed it, but is registered with the wait group only when the background flusher receives it. While the flusher
// is busy, a Wait started in between finds the container empty and the batch unregistered: it returns although a task
// whose Add had returned before Wait was called has not been executed.
// Place in core/executors/ and run: go test -run TestF38 ./core/executors/   (FAILS on the current tree: known finding)

import (
	"sync"
	"testing"
	"time"
)

func TestF38WaitMissesHandedOffBatch(t *testing.T) {
	var mu sync.Mutex
	executed := map[any]bool{}
	entered := make(chan struct{}, 4)
	gates := []chan struct{}{make(chan struct{}), make(chan struct{})}
	calls := 0
	be := NewBulkExecutor(func(tasks []any) {
		mu.Lock()
		k := calls
		calls++
		mu.Unlock()
		entered <- struct{}{}
		if k < len(gates) {
			<-gates[k]
		}
		mu.Lock()
		for _, x := range tasks {
			executed[x] = true
		}
		mu.Unlock()
	}, WithBulkTasks(2), WithBulkInterval(time.Hour))

	be.Add("a")
	be.Add("b") // hands [a b] to the flusher, returns once the flusher confirmed
	<-entered   // the flusher is inside the (slow) callback for [a b]

	be.Add("t") // below the threshold: returns at once — "t" is added before Wait
	go be.Add("u")
	// [t u] has been taken out of the container by the second producer, which now blocks on the hand-off
	deadline := time.Now().Add(5 * time.Second)
	for {
		empty := false
		be.executor.Sync(func() { empty = len(be.container.tasks) == 0 })
		if empty {
			break
		}
		if time.Now().After(deadline) {
			t.Fatal("setup: the second batch never left the container")
		}
		time.Sleep(time.Millisecond)
	}

	done := make(chan struct{})
	go func() { be.Wait(); close(done) }()
	time.Sleep(50 * time.Millisecond)
	close(gates[0]) // [a b] finishes
	select {
	case <-done:
		mu.Lock()
		ran := executed["t"]
		mu.Unlock()
		close(gates[1])
		if !ran {
			t.Fatal(`Wait returned although "t" (added before Wait) has not been executed: its batch was in nobody's books`)
		}
	case <-time.After(time.Second):
		close(gates[1]) // Wait is (rightly) still waiting for [t u]
		<-done
	}
}
