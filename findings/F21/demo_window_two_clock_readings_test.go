package collection

import (
	"testing"
	"time"
)

// F21 (C16, and through the window C01/C02): RollingWindow.updateOffset advanced `offset` by the span computed from a
// first clock reading (span()) and re-aligned `lastTime` with a second reading. Whenever an interval boundary passes
// between the two, lastTime moves further than offset: the bucket of the skipped interval is never reset, so values
// that should have left the window stay visible one interval too long (and the positions drift apart for good).
// With a tiny interval the boundary falls between the readings all the time; the invariant checked here is that,
// as long as the span is below the cap, offset and lastTime advance by the same number of intervals.
func TestDemoWindowOffsetAndLastTimeAdvanceTogether(t *testing.T) {
	const size = 1 << 16
	interval := 100 * time.Nanosecond
	rw := NewRollingWindow[int64, *Bucket[int64]](func() *Bucket[int64] { return new(Bucket[int64]) }, size, interval)
	bad := 0
	for i := 0; i < 300000; i++ {
		prevOffset, prevLast := rw.offset, rw.lastTime
		rw.Add(1)
		steps := int((rw.lastTime - prevLast) / interval)
		if steps >= size {
			continue // everything was reset, the positions are re-based
		}
		if (prevOffset+steps)%size != rw.offset {
			bad++
		}
	}
	if bad > 0 {
		t.Fatalf("in %d of 300000 updates lastTime advanced by a different number of intervals than offset: buckets of the skipped intervals were never reset", bad)
	}
}
