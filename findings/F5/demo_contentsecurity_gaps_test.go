package handler

import (
	"net/http"
	"net/http/httptest"
	"os"
	"testing"
	"time"

	"github.com/zeromicro/go-zero/core/codec"
)

// F5a (C18): behind STRICT content security a PATCH request without any
// signature reaches the protected handler.
func TestDemoStrictContentSecurityBypassedByPatch(t *testing.T) {
	keyFile, err := createTempFile(priKey)
	if err != nil {
		t.Fatal(err)
	}
	defer os.Remove(keyFile)
	decrypter, err := codec.NewRsaDecrypter(keyFile)
	if err != nil {
		t.Fatal(err)
	}
	ran := false
	h := ContentSecurityHandler(map[string]codec.RsaDecrypter{fingerprint: decrypter}, time.Hour, true)(
		http.HandlerFunc(func(w http.ResponseWriter, r *http.Request) { ran = true }))
	req := httptest.NewRequest(http.MethodPatch, "http://localhost/a/b", http.NoBody)
	resp := httptest.NewRecorder()
	h.ServeHTTP(resp, req)
	if ran {
		t.Fatalf("unsigned PATCH reached the handler behind strict content security (status %d)", resp.Code)
	}
}

// F5b (C18): the signature is computed over the client-supplied X-Request-Uri,
// not over the path the request is dispatched on.
func TestDemoSignatureCoversHeaderNotRealPath(t *testing.T) {
	keyFile, err := createTempFile(priKey)
	if err != nil {
		t.Fatal(err)
	}
	defer os.Remove(keyFile)
	decrypter, err := codec.NewRsaDecrypter(keyFile)
	if err != nil {
		t.Fatal(err)
	}
	var servedPath string
	h := ContentSecurityHandler(map[string]codec.RsaDecrypter{fingerprint: decrypter}, time.Hour, true)(
		http.HandlerFunc(func(w http.ResponseWriter, r *http.Request) { servedPath = r.URL.Path }))
	// signed for /public/info, sent to /admin/delete
	req, err := buildRequest(requestSettings{
		method:      http.MethodGet,
		url:         "http://localhost/admin/delete?id=1",
		strict:      true,
		requestUri:  "http://localhost/public/info",
		timestamp:   time.Now().Unix(),
		fingerprint: fingerprint,
	})
	if err != nil {
		t.Fatal(err)
	}
	resp := httptest.NewRecorder()
	h.ServeHTTP(resp, req)
	if servedPath != "" {
		t.Fatalf("request for %s was served with a signature that covers only /public/info", servedPath)
	}
}
