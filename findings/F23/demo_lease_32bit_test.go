package redis

import (
	"testing"
	"time"

	"github.com/alicebob/miniredis/v2"
)

// F23 (C19): the lease is the configured seconds plus 500 ms, for every lease. `int(seconds)*1000 + 500` is computed
// in `int`, which is 32 bits wide on 32-bit platforms: SetExpire(30 days) overflows there — the SET is refused
// ("invalid expire time") or the lock gets a lease of about a second. Run with GOARCH=386 to see it; on 64-bit
// platforms the test passes either way.
//
//	GOARCH=386 go test ./core/stores/redis -run TestDemoLeaseOnThirtyTwoBit
func TestDemoLeaseOnThirtyTwoBit(t *testing.T) {
	mr := miniredis.RunT(t)
	client := New(mr.Addr())
	lock := NewRedisLock(client, "demo-f23")
	const thirtyDays = 30 * 24 * 3600
	lock.SetExpire(thirtyDays)
	ok, err := lock.Acquire()
	if err != nil || !ok {
		t.Fatalf("Acquire with a 30-day lease: ok=%v err=%v", ok, err)
	}
	if ttl := mr.TTL("demo-f23"); ttl < thirtyDays*time.Second {
		t.Fatalf("lease is %v, want 30 days + 500ms", ttl)
	}
}
