package redis

import (
	"strings"
	"testing"
	"time"

	"github.com/alicebob/miniredis/v2"
)

// F23 (C19): the lease is the configured seconds plus 500 ms, for every lease. `int(seconds)*1000 + 500` was computed
// in `int`, which is 32 bits wide on 32-bit platforms: SetExpire(4294968) (≈ 49.7 days) wrapped to 1204 ms, so Acquire
// reported success with a lease of about a second; SetExpire(30 days) produced a negative number and the script was
// refused. Run with GOARCH=386; on 64-bit platforms the test passes either way.
//
//	GOARCH=386 go test ./core/stores/redis -run TestDemoLeaseOnThirtyTwoBit
//
// (miniredis itself, built for 386, cannot parse a PX value above MaxInt32: with the repaired code it answers
// "value is not an integer or out of range" — a limit of the test double, reported as a skip, never a short lease.)
func TestDemoLeaseOnThirtyTwoBit(t *testing.T) {
	mr := miniredis.RunT(t)
	client := New(mr.Addr())
	lock := NewRedisLock(client, "demo-f23")
	const seconds = 4294968
	lock.SetExpire(seconds)
	ok, err := lock.Acquire()
	if err != nil && strings.Contains(err.Error(), "not an integer or out of range") {
		t.Skip("the lease was sent in full; miniredis built for a 32-bit platform cannot represent it")
	}
	if err != nil || !ok {
		t.Fatalf("Acquire: ok=%v err=%v", ok, err)
	}
	if ttl := mr.TTL("demo-f23"); ttl < seconds*time.Second {
		t.Fatalf("Acquire reported success with a lease of %v, configured %v", ttl, time.Duration(seconds)*time.Second)
	}
}
