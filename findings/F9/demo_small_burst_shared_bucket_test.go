package limit

import (
	"testing"
	"time"

	"github.com/alicebob/miniredis/v2"
	"github.com/zeromicro/go-zero/core/stores/redis"
)

// F9 (C03.R4): the token script's key TTL was floor(2*capacity/rate), which is 0 whenever
// 2*burst < rate; SETEX then fails ("invalid expire time"), every request takes the store-outage
// path, and each instance grants its own local burst although Redis is reachable: two instances
// sharing a key grant 2*burst in the same second.  Place in core/limit:
//   go test -run TestDemoF9 ./core/limit/
func TestDemoF9SmallBurstIsStillOneSharedBucket(t *testing.T) {
	s := miniredis.RunT(t)
	store := redis.New(s.Addr())
	const rate, burst = 100, 10
	a := NewTokenLimiter(rate, burst, store, "shared")
	b := NewTokenLimiter(rate, burst, store, "shared")
	now := time.Now()
	granted := 0
	for i := 0; i < 40; i++ {
		if a.AllowN(now, 1) {
			granted++
		}
		if b.AllowN(now, 1) {
			granted++
		}
	}
	if granted > burst {
		t.Fatalf("two limiters sharing a key granted %d tokens at one instant, the shared bucket holds %d", granted, burst)
	}
}
