package format

// F41 (C20.R17): (*AST).Format decided the blank line after an import literal from the raw neighbour a.Stmts[idx+1];
// a neighbour that formats to nothing (`import ""`) is skipped, so the second pass — which no longer sees it — decides
// differently: formatting was not idempotent.
// Place in tools/goctl/pkg/parser/api/format/ and run: go test -run TestF41 ./pkg/parser/api/format/

import (
	"bytes"
	"testing"
)

func TestF41SkippedNeighbour(t *testing.T) {
	for _, src := range []string{
		"syntax = \"v1\"\n\nimport \"a\"\nimport \"\"\ntype Foo {}\n",
		"syntax = \"v1\"\n\nimport \"a\"\nimport \"\"\n\ninfo (\n\tdesc: \"x\"\n)\n",
	} {
		var once, twice bytes.Buffer
		if err := Source([]byte(src), &once); err != nil {
			t.Fatalf("first pass: %v", err)
		}
		if err := Source(once.Bytes(), &twice); err != nil {
			t.Fatalf("second pass: %v\n%s", err, once.String())
		}
		if once.String() != twice.String() {
			t.Fatalf("formatting is not idempotent\nsource:\n%s\nfirst pass:\n%q\nsecond pass:\n%q", src, once.String(), twice.String())
		}
	}
}
