package executors

import (
	"sync"
	"sync/atomic"
	"testing"
	"time"
)

// Demonstration for finding F13 (property C11): "every task accepted by Add has been passed to the
// execute callback when a later Wait of the same caller returns".
//
// Each producer adds one task to an executor whose container hands off every task at once
// (threshold 1), then calls Wait and checks that its own task has been executed. With a buffered
// hand-off channel a producer can be released by the confirmation that belongs to another producer's
// batch while its own batch still sits in the channel buffer: enterExecution has not been called for
// it yet, so Wait does not cover it.
type oneShotContainer struct {
	tasks    []int
	executed *sync.Map
}

func (c *oneShotContainer) AddTask(task any) bool {
	c.tasks = append(c.tasks, task.(int))
	return true
}

func (c *oneShotContainer) Execute(tasks any) {
	// a little work, so that batches queue up behind the running one
	time.Sleep(20 * time.Microsecond)
	for _, t := range tasks.([]int) {
		c.executed.Store(t, true)
	}
}

func (c *oneShotContainer) RemoveAll() any {
	ts := c.tasks
	c.tasks = nil
	return ts
}

func TestDemoWaitCoversOwnBatch(t *testing.T) {
	const producers = 64
	const rounds = 300
	var lost int64
	for r := 0; r < rounds; r++ {
		var executed sync.Map
		pe := NewPeriodicalExecutor(time.Hour, &oneShotContainer{executed: &executed})
		var wg sync.WaitGroup
		for i := 0; i < producers; i++ {
			wg.Add(1)
			go func(id int) {
				defer wg.Done()
				pe.Add(id)
				pe.Wait()
				if _, ok := executed.Load(id); !ok {
					atomic.AddInt64(&lost, 1)
				}
			}(i)
		}
		wg.Wait()
	}
	if lost > 0 {
		t.Fatalf("%d of %d producers returned from Add+Wait before their own task had been executed", lost, producers*rounds)
	}
}
